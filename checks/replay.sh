#!/bin/bash
# usage: checks/replay.sh <replay file>   - re-runs the unit that found the violation on /repo's current tree
set -u
F="$1"; ID=$(python3 -c "import json,sys;print(json.load(open(sys.argv[1]))['property'])" "$F") || exit 2
export GOFLAGS=-mod=mod GOPROXY=off GOSUMDB=off GOTOOLCHAIN=local
cd /verif || exit 2
W=$(mktemp -d /tmp/vreplay-XXXXXX) || exit 2
trap 'rm -rf "$W"' EXIT
[ -x bin/instrument ] || go build -o bin/instrument ./tools/instrument || exit 2
case "$ID" in C14|C15) RULES=r2,r3,r4 ;; C16) RULES=r2,r6 ;; C12) RULES=r2 ;; C03|C04|C08|C13) RULES=none ;; *) RULES=r1,r2,r5 ;; esac
REPO="${VERIF_REPO:-/repo}"; MODFLAG=""
if [ "$REPO" != /repo ]; then sed "s#=> /repo#=> $REPO#" go.mod > "$W/alt.mod"; cp go.sum "$W/alt.sum"; MODFLAG="-modfile=$W/alt.mod"; fi
./bin/instrument -repo "$REPO" -out "$W" -rules "$RULES" -rt /verif/rt >/dev/null || exit 2
go build $MODFLAG -tags verif -overlay "$W/overlay.json" -o "$W/vcheck" ./harness/cmd/vcheck || exit 2
cd "$W" && ./vcheck replay "$F"
