#!/bin/bash
# Runs every registered quick (or thorough) check once and prints one summary line each.
TIER="${1:-quick}"; cd /verif; RC=0
for c in $(python3 -c "import json;print(' '.join(x['property_id'] for x in json.load(open('MANIFEST.json'))['checks']))"); do
  OUT=$(./checks/run.sh $c $TIER 2>&1); E=$?
  echo "$(echo "$OUT" | grep "^$c tier=" | cut -c1-220) exit=$E"
  echo "$OUT" | grep "^VIOLATION\|^KNOWN-FINDING\|^HARNESS" | cut -c1-200
  [ $E -ne 0 ] && RC=1
done
exit $RC
