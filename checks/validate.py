#!/usr/bin/env python3-vt
import json,jsonschema,glob,sys
ok=True
m=json.load(open('/verif/MANIFEST.json'))
jsonschema.validate(m,json.load(open('/root/.vp/MANIFEST.schema.json')))
es=json.load(open('/root/.vp/EVIDENCE.schema.json'))
for c in m['checks']:
    try:
        e=json.load(open(c['evidence_file'])); jsonschema.validate(e,es)
        assert e['level']==c['level_claimed']['category'], 'level mismatch'
        print(c['property_id'],'ok',e['tier'],e['coverage'].get('evaluations'),e['coverage'].get('exhaustive'))
    except Exception as x:
        ok=False; print(c['property_id'],'BAD',str(x)[:200])
ids={json.loads(l)['id'] for l in open('/verif/properties.jsonl')}
cl={c['property_id'] for c in m['checks']}; na={n['property_id'] for n in m.get('not_applicable',[])}
print('unaccounted:',sorted(ids-cl-na),'both:',sorted(cl&na))
sys.exit(0 if ok else 1)
