#!/bin/bash
# Build the framework from files on disk only (offline) and warm the Go build cache.
set -e
export GOFLAGS=-mod=mod GOPROXY=off GOSUMDB=off GOTOOLCHAIN=local
cd /verif
mkdir -p bin evidence replays
go build -o bin/instrument ./tools/instrument
W=$(mktemp -d /tmp/vsetup-XXXXXX); trap 'rm -rf "$W"' EXIT
./bin/instrument -repo /repo -out "$W" -rules r1,r2,r5 -rt /verif/rt >/dev/null
go build -tags verif -overlay "$W/overlay.json" -o "$W/vcheck" ./harness/cmd/vcheck
"$W/vcheck" list >/dev/null
go test -c -vet=off -tags verif -overlay "$W/overlay.json" -o "$W/fuzzwrap.test" ./harness/fuzzwrap
if true; then
  rm -rf "$W"/*; ./bin/instrument -repo /repo -out "$W" -rules r2,r3,r4 -rt /verif/rt >/dev/null
  go build -tags verif -overlay "$W/overlay.json" -o "$W/vsched" ./harness/cmd/vcheck
fi
rm -rf "$W"/*; ./bin/instrument -repo /repo -out "$W" -rules r2 -rt /verif/rt >/dev/null
go build -race -tags verif -overlay "$W/overlay.json" -o "$W/vrace" ./harness/cmd/vcheck
# optional warm-ups: the 32-bit digest program of C04 and the newer toolchain's test binary of C09 (both are built again by run.sh)
rm -rf "$W"/*; ./bin/instrument -repo /repo -out "$W" -rules none -rt /verif/rt >/dev/null
GOARCH=386 go build -tags verif -overlay "$W/overlay.json" -o "$W/platdigest386" ./harness/cmd/platdigest 2>/dev/null || true
if [ -x /opt/veriftools/go1.26.8/bin/go ]; then
  PATH=/opt/veriftools/go1.26.8/bin:$PATH go test -c -vet=off -tags verif -overlay "$W/overlay.json" -o "$W/synctest.test" ./harness/fuzzwrap 2>/dev/null || true
fi
echo setup ok
