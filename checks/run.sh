#!/bin/bash
# usage: checks/run.sh <ID> [quick|thorough]
# instrument /repo's current working tree -> build the harness against it -> run -> clean up.
set -u
ID="$1"; TIER="${2:-${VERIF_TIER:-quick}}"; SEED="${VERIF_SEED:-0}"
export GOFLAGS=-mod=mod GOPROXY=off GOSUMDB=off GOTOOLCHAIN=local
ROOT=$(cd "$(dirname "$0")/.." && pwd)   # /verif, or a snapshot of it (vp run)
export VERIF_DIR="$ROOT"
cd "$ROOT" || exit 2
W=$(mktemp -d /tmp/vcheck-XXXXXX) || exit 2
trap 'rm -rf "$W"' EXIT
mkdir -p bin
if [ ! -x bin/instrument ] || [ tools/instrument/main.go -nt bin/instrument ] || [ tools/instrument/r4.go -nt bin/instrument ]; then
  go build -o bin/instrument ./tools/instrument || { echo "HARNESS-ERROR: instrumenter does not build"; exit 2; }
fi
# every check gets only the instrumentation rules it needs, so that a change to the repository that
# removes one rule's anchor can only stop the checks that depend on that seam
case "$ID" in
  C14|C15)                 RULES=r2,r3,r4 ;;     # E3: sync shim + plain-access instrumentation (+ clock)
  C16)                     RULES=r2,r6 ;;        # E4: file-system shim
  C12)                     RULES=r2 ;;           # E1 + a few runs through the public Check on the virtual clock
  C03|C04|C08|C13)         RULES=none ;;         # E1 at generator level: hooks only
  *)                       RULES=r1,r2,r5 ;;     # E2 through the public Check: PRNG seam/seed observer, clock, buffer observer
esac
MAIN=./harness/cmd/vcheck
REPO="${VERIF_REPO:-/repo}"
MODFLAG=""
if [ "$REPO" != /repo ]; then
  # scratch copy of the repository (mutant trials): same harness, replace directive redirected; evidence kept out of /verif/evidence
  sed "s#=> /repo#=> $REPO#" go.mod > "$W/alt.mod"; cp go.sum "$W/alt.sum" 2>/dev/null
  MODFLAG="-modfile=$W/alt.mod"
  export VERIF_EVIDENCE_DIR="${VERIF_EVIDENCE_DIR:-$W/evidence}"
fi
INSTR=$(./bin/instrument -repo "$REPO" -out "$W" -rules "$RULES" -rt "$ROOT/rt" 2>"$W/instr.err") || { echo "HARNESS-ERROR: instrumentation failed: $(cat "$W/instr.err")"; exit 2; }
if ! go build $MODFLAG -tags verif -overlay "$W/overlay.json" -o "$W/vcheck" "$MAIN" 2>"$W/build.err"; then
  echo "HARNESS-ERROR: harness does not build against the current tree:"; head -30 "$W/build.err"; exit 2
fi
if [ "$ID" = C14 ] || [ "$ID" = C15 ]; then
  # secondary evidence: the same scenario shapes free-running on real goroutines / real sync under Go's race detector
  mkdir -p "$W/race"
  ./bin/instrument -repo "$REPO" -out "$W/race" -rules r2 -rt "$ROOT/rt" >/dev/null 2>"$W/instr.err" || { echo "HARNESS-ERROR: instrumentation (race build) failed: $(cat "$W/instr.err")"; exit 2; }
  if ! go build $MODFLAG -race -tags verif -overlay "$W/race/overlay.json" -o "$W/vrace" "$MAIN" 2>"$W/build.err"; then
    echo "HARNESS-ERROR: -race harness does not build:"; head -20 "$W/build.err"; exit 2
  fi
  export VERIF_RACE_BIN="$W/vrace"
fi
if [ "$ID" = C04 ]; then
  # the same digest program for the host and for a 32-bit platform: draws depend on the bits only, not on the word size
  if go build $MODFLAG -tags verif -overlay "$W/overlay.json" -o "$W/platdigest" ./harness/cmd/platdigest 2>"$W/build.err" &&
     GOARCH=386 go build $MODFLAG -tags verif -overlay "$W/overlay.json" -o "$W/platdigest386" ./harness/cmd/platdigest 2>>"$W/build.err"; then
    export VERIF_PLAT_BIN="$W/platdigest" VERIF_PLAT386_BIN="$W/platdigest386"
  fi
fi
if [ "$ID" = C13 ] || [ "$ID" = C09 ]; then
  # the exported MakeFuzz wrapper needs a real *testing.T: a go test binary runs it, unit "C13/MakeFuzz-wrapper" compares
  if ! go test $MODFLAG -c -vet=off -tags verif -overlay "$W/overlay.json" -o "$W/fuzzwrap.test" ./harness/fuzzwrap 2>"$W/build.err"; then
    echo "HARNESS-ERROR: wrapper test does not build:"; head -20 "$W/build.err"; exit 2
  fi
  export VERIF_FUZZWRAP_BIN="$W/fuzzwrap.test"
  # the same package built with the newer toolchain of the image, if it is there: Check inside a testing/synctest bubble (Go 1.25+)
  if [ "$ID" = C09 ] && [ -x /opt/veriftools/go1.26.8/bin/go ]; then
    if PATH=/opt/veriftools/go1.26.8/bin:$PATH go test $MODFLAG -c -vet=off -tags verif -overlay "$W/overlay.json" -o "$W/synctest.test" ./harness/fuzzwrap 2>"$W/build126.err"; then
      export VERIF_SYNCTEST_BIN="$W/synctest.test"
    fi
  fi
fi
"$W/vcheck" run "$ID" --tier "$TIER" --seed "$SEED" --instr "$INSTR"
