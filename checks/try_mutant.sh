#!/bin/bash
# usage: checks/try_mutant.sh <dir with patch.diff demo_test.go> <ID> [check ids to run...]
# 1. confirms in a scratch worktree: suite passes with the patch, TestDemo passes without and fails with it
# 2. applies the patch to /repo, runs the quick checks, reverts, prints a summary line per check
set -u
DEMO_FLAGS="${DEMO_FLAGS:-}"; [ -z "$DEMO_FLAGS" ] && [ -f "$1/demo_flags" ] && DEMO_FLAGS=$(cat "$1/demo_flags")
SRC="$(realpath "$1")"; ID="$2"; shift 2; CHECKS="$*"
export GOFLAGS=-mod=mod GOPROXY=off GOSUMDB=off GOTOOLCHAIN=local
# base: the newest commit of /repo on which the patch applies (seeded changes were written against the HEAD of their day;
# later fix: commits may touch the same lines)
BASE="${MUTANT_BASE:-}"
[ -z "$BASE" ] && [ -f "$SRC/base" ] && BASE=$(git -C /repo rev-parse "$(cat "$SRC/base")")
[ -z "$BASE" ] && for C in $(git -C /repo log --format=%H -80); do
  T=$(mktemp -d /tmp/basechk-XXXXXX); rmdir "$T"
  git -C /repo worktree add -q --detach "$T" "$C" 2>/dev/null || continue
  if git -C "$T" apply --check "$SRC/patch.diff" 2>/dev/null; then BASE="$C"; fi
  git -C /repo worktree remove --force "$T"
  [ -n "$BASE" ] && break
done
[ -z "$BASE" ] && { echo "patch applies to none of the last 80 commits"; exit 2; }
[ "$BASE" != "$(git -C /repo rev-parse HEAD)" ] && echo "note: patch no longer applies to HEAD; using base $(git -C /repo log --format=%h -1 $BASE) (newest commit it applies to)"
WT=$(mktemp -d /tmp/confirm-XXXXXX); rmdir "$WT"
git -C /repo worktree add -q --detach "$WT" "$BASE" || exit 2
cleanup() { git -C /repo worktree remove --force "$WT" 2>/dev/null; }
trap cleanup EXIT
cd "$WT"
cp "$SRC/demo_test.go" ./zz_demo_test.go
DEMO_CLEAN=$(go test $DEMO_FLAGS -vet=off -count=1 -run TestDemo . >/dev/null 2>&1 && echo pass || echo FAIL)
rm zz_demo_test.go
git apply "$SRC/patch.diff" || { echo "patch does not apply"; exit 2; }
SUITE=$(go test -vet=off -count=1 . >/dev/null 2>&1 && echo pass || echo FAIL)
cp "$SRC/demo_test.go" ./zz_demo_test.go
DEMO_MUT=$(go test $DEMO_FLAGS -vet=off -count=1 -run TestDemo . >/dev/null 2>&1 && echo pass || echo FAIL)
rm zz_demo_test.go
echo "confirm: demo-on-clean=$DEMO_CLEAN suite-with-patch=$SUITE demo-with-patch=$DEMO_MUT"
cd /verif
# the scratch worktree still has the patch applied: run the checks against it (VERIF_REPO), /repo and /verif/evidence stay untouched.
# If the patch had to be applied to an older commit, that commit may still contain defects that were repaired later and that
# the checks report as well: the same checks then also run on the unpatched base, and only signatures that the patch ADDS count.
CLEANWT=""
if [ "$BASE" != "$(git -C /repo rev-parse HEAD)" ]; then
  CLEANWT=$(mktemp -d /tmp/cleanbase-XXXXXX); rmdir "$CLEANWT"
  git -C /repo worktree add -q --detach "$CLEANWT" "$BASE" || CLEANWT=""
fi
cleanup2() { [ -n "$CLEANWT" ] && git -C /repo worktree remove --force "$CLEANWT" 2>/dev/null; cleanup; }
trap cleanup2 EXIT
for c in $CHECKS; do
  OUT=$(VERIF_REPO="$WT" ./checks/run.sh $c quick 2>&1)
  RC=$?
  SIGS=$(echo "$OUT" | grep '^  signature: ' | sort -u)
  if [ -n "$CLEANWT" ] && [ $RC -eq 1 ]; then
    BASESIGS=$(VERIF_REPO="$CLEANWT" ./checks/run.sh $c quick 2>&1 | grep '^  signature: ' | sort -u)
    NEW=$(comm -23 <(echo "$SIGS") <(echo "$BASESIGS") | grep -v '^$')
    NB=$(echo "$BASESIGS" | grep -c signature)
    if [ -z "$NEW" ]; then RC=0; fi
    echo "check $c: exit=$RC $(echo "$NEW" | grep -c signature) violation signature(s) added by the patch ($NB more are defects of the old base, repaired since); first: $(echo "$NEW" | head -2 | tr '\n' ' ')"
  else
    echo "check $c: exit=$RC $(echo "$OUT" | grep -c '^VIOLATION') violation line(s); first: $(echo "$OUT" | grep -A1 '^VIOLATION' | grep signature | head -2 | tr '\n' ' ')"
  fi
  [ $RC -eq 2 ] && echo "$OUT" | grep -i "HARNESS" | head -3
done
