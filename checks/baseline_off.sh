#!/bin/bash
# The repository's own suite with the verif guard OFF (no -tags verif, no overlay).
export GOFLAGS=-mod=mod GOPROXY=off GOSUMDB=off GOTOOLCHAIN=local
cd /repo && go test -json -vet=off -count=1 -timeout 25m ./...
