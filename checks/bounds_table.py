#!/usr/bin/env python3
# prints the "figures of the last quick run" table for DESIGN.md 10.3 from evidence/*.json
import json,glob,os
root=os.path.dirname(os.path.dirname(os.path.abspath(__file__)))
print("| Id | units | executions | states | distinct / non-trivial outcomes | exhaustive within the bounds | wall (16 cores, idle) |")
print("|---|---|---|---|---|---|---|")
for f in sorted(glob.glob(root+'/evidence/C*.json')):
    e=json.load(open(f)); c=e['coverage']
    print(f"| {e['property_id']} | {c.get('units','')} | {c['evaluations']:,} | {c.get('states',0):,} | {c.get('distinct_outcomes')} / {c.get('distinct_nontrivial')} | {str(c.get('exhaustive')).lower()} | {e['wall_s']:.0f} s |")
