#!/usr/bin/env python3
# Regenerates /verif/MANIFEST.json from the table below (kept next to the checks so both change together).
import json
props=[json.loads(l) for l in open('/verif/properties.jsonl')]
E1="stateless DFS over bitstream answers on the implementation (bounded exhaustive)"
E2="stateless DFS over property-function behaviours through the public Check (bounded exhaustive)"
T={
 "C01":("lazyprop",E2+", cut-point enumeration on a virtual clock, replay oracles","11 base programs x behaviour deviations x checks x nofailfile x seeds; every failing run is repeated with minimization cut after every j-th shrink-phase invocation. The presented case must signal the failure the message names, logged draws = received draws, fail-file words replay to the same case through the buffer stream and MakeFuzz; never flaky; no failure without a falsified case.","Trusted: effectiveSignal (which failure of an invocation wins) mirrors Go panic/defer semantics; cut points at invocation granularity.","DESIGN.md 3.3, 4 C01"),
 "C05":("lazyprop",E2+", deviations on minimization candidates, r5 buffer observer, cut points","Multi-site programs with behaviour deviations placed on minimization candidates; oracle on the observed sequence of candidate buffers: same site, strictly decreasing accepted steps below the pruned original, every cut result is a state of the uncut run.","Trusted: site = (context, kind) of the effective fatal signal; r5 observer reports every buffer handed to newBufBitStream.","DESIGN.md 3.3, 4 C05"),
 "C07":("lazyprop",E2+", two-run differential (printed seed, rerun)","Base seeds (incl. near 2^64) x checks x every index of the first falsified case with skipped cases before it; the printed seed must make the first test case draw the failing case's values and fail after 0 tests; runs repeated and compared in test cases, report and fail file.","Trusted: virtual clock for deterministic reports; comment timestamps masked as the statement allows.","DESIGN.md 3.3, 4 C07"),
 "C02":("lazyprop",E2+", iff-oracle on the invocation log","Every failure kind x callback context x position of the falsifying case is enumerated (one deviation quick, two thorough, from all-pass and all-skip base runs) through the public Check on a fake TB; oracle: TB failed iff some executed test case signalled. A coverage statement over the whole matrix, which the suite samples at one cell per test.","Trusted: the behaviour alphabet (19 failure kinds) and 5 contexts in harness/lazyprop.go, progs_lazy.go; fake TB faithfully models testing.T for Failed/FailNow.","DESIGN.md 3.3, 4 C02"),
 "C03":("bitdfs",E1+", independent contract predicates","Every public constructor with extreme parameters is driven by every answer sequence within the stated depth/deviation bounds around the all-zero and all-ones streams (overrun at every position), plus PRNG seeds and truncated word patterns through the real buffer stream; oracle: independent contract predicate, outcome value-or-invalid, hang watchdog.","Trusted: per-width answer alphabet; catalogue in harness/catalog.go; contract predicates written from the documentation.","DESIGN.md 3.2, 4 C03"),
 "C04":("bitdfs",E1+", differential replay oracle","Stateless exhaustive DFS over drawBits answers (per-width boundary alphabet, depth and deviation bounds stated in the evidence) on the real generators and state machine; every execution is replayed as recorded and after prune() through the real buffer stream and must give identical draws and verdict. Coverage statement, not a sample.","Trusted: the per-width answer alphabet (boundary words, not all 2^64), the catalogue of generator expressions, Go's fmt/reflect for rendering draws.","DESIGN.md 3.2, 4 C04"),
 "C09":("lazyprop",E2+", step-by-step reference model of findBug/checkTB","All pass/skip/fail sequences of the random test cases for N<=3 and deviation-bounded ones for N up to 100, with every kind of fail file present, are run through the public Check and compared invocation by invocation and verdict by verdict with a 30-line reference model.","Trusted: the reference model c09Model; no test deadline (early exit not explored).","DESIGN.md 3.3, 4 C09"),
 "C11":("lazyprop",E2+", blamed-case oracle from PRNG reseeding events","All sequences over 8 per-case behaviours of length 4/5 for the first test cases of a run; the case Check treats as falsifying (identified through the reproduction stream's seed) must be the first one that really signalled; never 'flaky'.","Trusted: seed-observer hook identifies the blamed case; inputs unique per case.","DESIGN.md 3.3, 4 C11"),
}
checks=[]
for pid in sorted(T):
    eng,tech,text,note,ref=T[pid]
    checks.append({"property_id":pid,"quick_cmd":f"checks/run.sh {pid} quick","thorough_cmd":f"checks/run.sh {pid} thorough",
      "evidence_file":f"/verif/evidence/{pid}.json","replay_cmd_template":"cat {path}","engine":eng,
      "level_claimed":{"category":"model_checking","text":text,"design_ref":ref},"level_note":note,"technique":tech})
claimed=set(T)
engines=[
 {"name":"bitdfs","path":"harness/bitdfs.go","serves_properties":[p for p in sorted(T) if T[p][0]=="bitdfs"],"kind_free_text":"E1: stateless DFS over answers to drawBits(n) around all-zero/all-ones base streams, deviation-bounded, on the real generators"},
 {"name":"lazyprop","path":"harness/lazyprop.go","serves_properties":[p for p in sorted(T) if T[p][0]=="lazyprop"],"kind_free_text":"E2: the property function as a lazy demonic environment; DFS over behaviour assignments to the inputs that occur, through the public rapid.Check on a fake TB with a virtual clock"},
]
m={"version":1,"setup_cmd":"checks/setup.sh",
 "hooks":{"guard":"verif (Go build tag)","enable":"go build -tags verif -overlay <overlay.json written by /verif/bin/instrument from /repo's working tree>","baseline_off_cmd":"checks/baseline_off.sh","source_commits":["c7a55a9","8f086b9","7474f80"],"add_only":True},
 "engines":engines,"checks":checks,
 "notes":"See DESIGN.md. known_findings.json lists genuine defects (fixed by fix: commits in /repo, or recorded).",
 "not_applicable":[{"property_id":p["id"],"reason":"check not built yet in this round (designed in DESIGN.md section 4); will be claimed when its engine lands"} for p in props if p["id"] not in claimed]}
json.dump(m,open('/verif/MANIFEST.json','w'),indent=1)
print("claimed",sorted(claimed))
