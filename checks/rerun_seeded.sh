#!/bin/bash
# Regression over all stored seeded changes: confirm each again and run the checks that are meant to
# catch it (its property's check plus every check that caught it before); rewrites seeded/*/meta.json.
cd /verif
FAILED=0
for D in seeded/*/; do
  N=$(basename "$D")
  PROP=$(python3 -c "import json;print(json.load(open('$D/meta.json'))['breaks_property'])")
  NEEDS=$(python3 -c "import json;print(json.load(open('$D/meta.json'))['needs_to_manifest'])")
  CHECKS=$(python3 -c "import json;m=json.load(open('$D/meta.json'));print(' '.join(dict.fromkeys([m['breaks_property']]+m.get('detected_by',[]))))")
  OUT=$(./checks/keep_mutant.sh "/verif/$D" "$N" "$PROP" "$NEEDS" $CHECKS 2>&1)
  DET=$(python3 -c "import json;print(','.join(json.load(open('$D/meta.json'))['detected_by']))")
  echo "$N: detected_by=[$DET] $(echo "$OUT" | grep '^confirm:')"
  [ -z "$DET" ] && FAILED=1
done
exit $FAILED
