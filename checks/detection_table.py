#!/usr/bin/env python3
# Prints the markdown table "which check catches which seeded change" from seeded/*/meta.json.
import json,glob,os
rows=[]
for d in sorted(glob.glob('/verif/seeded/*/')):
    m=json.load(open(d+'meta.json'))
    name=os.path.basename(d.rstrip('/'))
    sigs=[]
    for r in m['results']:
        c=r.split(':')[0].replace('check ','')
        hit='exit=1' in r
        first=r.split('first:')[1].strip() if 'first:' in r else ''
        first=first.replace('signature: ','').split('   ')[0][:70]
        sigs.append(f"{c}: {'**yes**' if hit else 'no'}"+(f" (`{first}`)" if hit else ''))
    rows.append(f"| `{name}` | {m['breaks_property']} | {m['needs_to_manifest'][:140]} | {'; '.join(sigs)} |")
print("| seeded change | property | needs, to manifest | quick checks run against it |\n|---|---|---|---|")
print("\n".join(rows))
