#!/bin/bash
# usage: checks/keep_mutant.sh <src dir> <name> <property> "<needs>" <checks...>
# confirms + runs the checks (try_mutant.sh), then stores patch, demo, README and meta.json under /verif/seeded/<name>/
SRC="$1"; NAME="$2"; PROP="$3"; NEEDS="$4"; shift 4
D=/verif/seeded/$NAME; mkdir -p "$D"
if [ "$(realpath "$SRC")" != "$(realpath "$D")" ]; then
  cp "$SRC/patch.diff" "$SRC/demo_test.go" "$D/"; [ -f "$SRC/README.md" ] && cp "$SRC/README.md" "$D/README.md"
fi
OUT=$(/verif/checks/try_mutant.sh "$SRC" "$PROP" "$@" 2>&1)
echo "$OUT"
python3 - "$D" "$PROP" "$NEEDS" "$OUT" "$*" <<'PY'
import json,sys
d,prop,needs,out,checks=sys.argv[1:6]
lines=[l for l in out.splitlines() if l.startswith('confirm:') or l.startswith('check ')]
notes=[l for l in out.splitlines() if l.startswith('note:')]
det=[l.split(':')[0].split()[1] for l in lines if l.startswith('check ') and 'exit=1' in l]
json.dump({"breaks_property":prop,"needs_to_manifest":needs,
 "confirmed":lines[0] if lines else "", "ran":"checks/try_mutant.sh (scratch worktree: suite with patch, TestDemo with/without; then git -C /repo apply, quick checks "+checks+", git checkout)",
 "results":lines[1:],"detected_by":det,"base_note":(notes[0] if notes else "applies to the HEAD of /repo at the time of the last regression run"),"source":"written by an independent sub-agent given only the property text and a scratch worktree"},open(d+'/meta.json','w'),indent=1)
PY
