package main

import (
	"go/ast"

	"golang.org/x/tools/go/ast/astutil"
)

// rewriteExprs replaces every expression e for which fn returns non-nil;
// the replacement is not traversed again.
func rewriteExprs(root ast.Node, fn func(ast.Expr) ast.Expr) {
	astutil.Apply(root, func(c *astutil.Cursor) bool {
		e, ok := c.Node().(ast.Expr)
		if !ok {
			return true
		}
		if r := fn(e); r != nil {
			c.Replace(r)
			return false
		}
		return true
	}, nil)
}
