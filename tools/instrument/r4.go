package main

func ruleR4(files []*fileInfo, repo string) {}
