package main

// r4: plain-access instrumentation for the happens-before detector.
//
// Every explicit field selector X.f (a FieldVal selection of a struct declared in package rapid) that
// is addressable and is the *end* of its selector chain, every addressable slice/array element s[i],
// and every map read/write becomes a call that reports (address, site) to the detector:
//
//	rvalue X.f           -> (*vsync.R(&X.f, "file.go:12"))
//	X.f = v, X.f++, ...  -> (*vsync.W(&X.f, "file.go:12"))
//	m[k] (read)          -> vsync.RM(m, site)[k]
//	m[k] = v, delete     -> vsync.WM(m, site)[k] = v
//
// Fields whose type comes from sync or sync/atomic are left alone (their operations are scheduling
// points of the shim). Operands of & are left alone (taking an address is not an access).

import (
	"fmt"
	"go/ast"
	"go/importer"
	"go/token"
	"go/types"
	"path/filepath"
	"strings"

	"golang.org/x/tools/go/ast/astutil"
)

func ruleR4(files []*fileInfo, repo string) {
	var asts []*ast.File
	for _, fi := range files {
		asts = append(asts, fi.f)
	}
	info := &types.Info{
		Types:      map[ast.Expr]types.TypeAndValue{},
		Selections: map[*ast.SelectorExpr]*types.Selection{},
		Uses:       map[*ast.Ident]types.Object{},
	}
	conf := types.Config{Importer: importer.ForCompiler(fset, "source", nil), Error: func(err error) {}}
	pkg, err := conf.Check("pgregory.net/rapid", fset, asts, info)
	if err != nil && pkg == nil {
		fatal("r4: type check failed: %v", err)
	}

	isSyncType := func(t types.Type) bool {
		for {
			switch x := t.(type) {
			case *types.Pointer:
				t = x.Elem()
				continue
			case *types.Named:
				if p := x.Obj().Pkg(); p != nil && (p.Path() == "sync" || p.Path() == "sync/atomic") {
					return true
				}
			}
			return false
		}
	}

	for _, fi := range files {
		if fi.verf {
			continue
		}
		sites := map[ast.Node]string{}
		site := func(n ast.Node) ast.Expr {
			if v, ok := sites[n]; ok {
				return &ast.BasicLit{Kind: token.STRING, Value: v}
			}
			p := fset.Position(n.Pos())
			return &ast.BasicLit{Kind: token.STRING, Value: fmt.Sprintf("%q", fmt.Sprintf("%s:%d", filepath.Base(p.Filename), p.Line))}
		}
		ast.Inspect(fi.f, func(n ast.Node) bool {
			if e, ok := n.(ast.Expr); ok {
				p := fset.Position(e.Pos())
				sites[e] = fmt.Sprintf("%q", fmt.Sprintf("%s:%d", filepath.Base(p.Filename), p.Line))
			}
			return true
		})
		wrap := func(fn string, e ast.Expr, at ast.Node) ast.Expr {
			call := &ast.CallExpr{
				Fun:  &ast.SelectorExpr{X: ast.NewIdent("vsyncrt"), Sel: ast.NewIdent(fn)},
				Args: []ast.Expr{&ast.UnaryExpr{Op: token.AND, X: e}, site(at)},
			}
			return &ast.ParenExpr{X: &ast.StarExpr{X: call}}
		}
		wrapMap := func(fn string, m ast.Expr, at ast.Node) ast.Expr {
			return &ast.CallExpr{
				Fun:  &ast.SelectorExpr{X: ast.NewIdent("vsyncrt"), Sel: ast.NewIdent(fn)},
				Args: []ast.Expr{m, site(at)},
			}
		}
		// classify write targets first
		writes := map[ast.Expr]bool{}
		noTouch := map[ast.Expr]bool{}
		ast.Inspect(fi.f, func(n ast.Node) bool {
			switch x := n.(type) {
			case *ast.AssignStmt:
				if x.Tok != token.DEFINE {
					for _, l := range x.Lhs {
						writes[unparen(l)] = true
					}
				}
			case *ast.IncDecStmt:
				writes[unparen(x.X)] = true
			case *ast.UnaryExpr:
				if x.Op == token.AND {
					noTouch[unparen(x.X)] = true
				}
			case *ast.RangeStmt:
				if x.Key != nil {
					noTouch[unparen(x.Key)] = true
				}
				if x.Value != nil {
					noTouch[unparen(x.Value)] = true
				}
			case *ast.CallExpr:
				if id, ok := x.Fun.(*ast.Ident); ok && id.Name == "delete" && len(x.Args) == 2 {
					if tv, ok := info.Types[x.Args[0]]; ok {
						if _, isMap := tv.Type.Underlying().(*types.Map); isMap {
							x.Args[0] = wrapMap("WM", x.Args[0], x)
							counts["r4"]++
							fi.dirt = true
						}
					}
				}
			}
			return true
		})
		// pass 1 (original tree, type information valid): decide what to do with which node
		plan := map[ast.Node]string{}
		astutil.Apply(fi.f, func(c *astutil.Cursor) bool {
			e, ok := c.Node().(ast.Expr)
			if !ok || noTouch[e] {
				return true
			}
			// only the end of a selector chain is an access
			if parent, ok := c.Parent().(*ast.SelectorExpr); ok && parent.X == e {
				if sel := info.Selections[parent]; sel != nil && sel.Kind() == types.FieldVal {
					return true
				}
			}
			if pe, ok := c.Parent().(*ast.ParenExpr); ok && noTouch[pe] {
				return true
			}
			switch x := e.(type) {
			case *ast.SelectorExpr:
				sel := info.Selections[x]
				if sel == nil || sel.Kind() != types.FieldVal {
					return true
				}
				tv, ok := info.Types[x]
				if !ok || !tv.Addressable() || isSyncType(tv.Type) {
					return true
				}
				// X.f.M() with M on *F: &X.f is taken implicitly; the accesses happen inside M
				if parent, ok := c.Parent().(*ast.SelectorExpr); ok && parent.X == e {
					if psel := info.Selections[parent]; psel != nil && psel.Kind() == types.MethodVal {
						if sig, ok := psel.Obj().Type().(*types.Signature); ok && sig.Recv() != nil {
							if _, ptrRecv := sig.Recv().Type().(*types.Pointer); ptrRecv {
								return true
							}
						}
					}
				}
				if writes[x] {
					plan[x] = "W"
				} else {
					plan[x] = "R"
				}
			case *ast.IndexExpr:
				tv, ok := info.Types[x.X]
				if !ok || tv.IsType() {
					return true
				}
				if _, isSig := tv.Type.Underlying().(*types.Signature); isSig {
					return true // generic instantiation
				}
				switch tv.Type.Underlying().(type) {
				case *types.Map:
					if writes[x] {
						plan[x] = "WM"
					} else {
						plan[x] = "RM"
					}
				case *types.Slice, *types.Array, *types.Pointer:
					etv, ok := info.Types[x]
					if !ok || !etv.Addressable() || isSyncType(etv.Type) {
						return true
					}
					if writes[x] {
						plan[x] = "W"
					} else {
						plan[x] = "R"
					}
				}
			}
			return true
		}, nil)
		// pass 2 (post-order): rewrite
		n := 0
		astutil.Apply(fi.f, nil, func(c *astutil.Cursor) bool {
			act, ok := plan[c.Node()]
			if !ok {
				return true
			}
			switch act {
			case "R", "W":
				c.Replace(wrap(act, c.Node().(ast.Expr), c.Node()))
			case "RM", "WM":
				x := c.Node().(*ast.IndexExpr)
				x.X = wrapMap(act, x.X, x)
			}
			n++
			return true
		})
		if n > 0 {
			counts["r4"] += n
			fi.dirt = true
		}
		if fi.dirt && usesIdent(fi.f, "vsyncrt") {
			addImport(fi.f, "vsyncrt", "pgregory.net/rapid/verifrt/vsync")
		}
	}
}

func unparen(e ast.Expr) ast.Expr {
	for {
		p, ok := e.(*ast.ParenExpr)
		if !ok {
			return e
		}
		e = p.X
	}
}

func usesIdent(f *ast.File, name string) bool {
	found := false
	ast.Inspect(f, func(n ast.Node) bool {
		if id, ok := n.(*ast.Ident); ok && id.Name == name {
			found = true
		}
		return !found
	})
	return found
}

var _ = strings.TrimSpace
