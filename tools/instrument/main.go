// instrument: source-to-source instrumentation of package rapid for exploration.
//
// Reads the *current working tree* of the repository (never writes to it),
// writes rewritten copies of the non-test sources into -out and emits
// -out/overlay.json for `go build -overlay`. Every rule reports how many
// sites it matched; a requested rule matching zero sites is an error.
//
// Rules (see DESIGN.md 3.1):
//
//	r1  virtual PRNG words   (randomBitStream.drawBits / init)
//	r2  virtual clock        (time.Now / time.Until / time.Since)
//	r5  buffer-stream observer (newBufBitStream)
//	r6  file-system shim     (persist.go: os.X -> vfs.X)
//	r3  sync shim            (imports sync, sync/atomic -> virtual packages)
//	r4  plain-access instrumentation for the happens-before detector
package main

import (
	"bytes"
	"encoding/json"
	"flag"
	"fmt"
	"go/ast"
	"go/format"
	"go/parser"
	"go/token"
	"os"
	"path/filepath"
	"sort"
	"strings"
)

type fileInfo struct {
	path string
	name string
	f    *ast.File
	src  []byte
	verf bool // the hook file (build tag verif)
	dirt bool
}

var (
	fset   = token.NewFileSet()
	counts = map[string]int{}
)

func main() {
	repo := flag.String("repo", "/repo", "repository root")
	out := flag.String("out", "", "output directory (must exist)")
	rules := flag.String("rules", "r1,r2,r5", "comma separated rules")
	rtdir := flag.String("rt", "", "directory holding runtime packages (vsync, vatomic, vfs) to mount as virtual packages")
	flag.Parse()
	if *out == "" {
		fatal("missing -out")
	}
	want := map[string]bool{}
	for _, r := range strings.Split(*rules, ",") {
		if r = strings.TrimSpace(r); r != "" && r != "none" {
			want[r] = true
		}
	}

	ents, err := os.ReadDir(*repo)
	if err != nil {
		fatal("%v", err)
	}
	var files []*fileInfo
	for _, e := range ents {
		n := e.Name()
		if e.IsDir() || !strings.HasSuffix(n, ".go") || strings.HasSuffix(n, "_test.go") {
			continue
		}
		p := filepath.Join(*repo, n)
		src, err := os.ReadFile(p)
		if err != nil {
			fatal("%v", err)
		}
		f, err := parser.ParseFile(fset, p, src, parser.ParseComments)
		if err != nil {
			fatal("parse %s: %v", p, err)
		}
		fi := &fileInfo{path: p, name: n, f: f, src: src}
		fi.verf = bytes.Contains(src[:min(len(src), 200)], []byte("//go:build verif"))
		files = append(files, fi)
	}

	overlay := map[string]string{}

	if want["r4"] {
		ruleR4(files, *repo)
	}
	for _, fi := range files {
		if want["r1"] {
			ruleR1(fi)
		}
		if want["r2"] && !fi.verf {
			ruleR2(fi)
		}
		if want["r5"] {
			ruleR5(fi)
		}
		if want["r6"] && fi.name == "persist.go" {
			ruleR6(fi)
		}
		if want["r3"] {
			ruleR3(fi)
		}
	}
	for r := range want {
		if counts[r] == 0 {
			fatal("rule %s matched 0 sites: the sources no longer have the shape this rule anchors on", r)
		}
	}

	for _, fi := range files {
		if !fi.dirt {
			continue
		}
		var buf bytes.Buffer
		if err := format.Node(&buf, fset, fi.f); err != nil {
			fatal("format %s: %v", fi.name, err)
		}
		dst := filepath.Join(*out, fi.name)
		if err := os.WriteFile(dst, buf.Bytes(), 0o644); err != nil {
			fatal("%v", err)
		}
		overlay[fi.path] = dst
	}

	// virtual runtime packages live under <repo>/verifrt/<pkg>/ in the overlay only
	if *rtdir != "" {
		pkgs, _ := os.ReadDir(*rtdir)
		for _, p := range pkgs {
			if !p.IsDir() {
				continue
			}
			gos, _ := filepath.Glob(filepath.Join(*rtdir, p.Name(), "*.go"))
			for _, g := range gos {
				if strings.HasSuffix(g, "_test.go") {
					continue
				}
				overlay[filepath.Join(*repo, "verifrt", p.Name(), filepath.Base(g))] = g
			}
		}
	}

	ov, _ := json.MarshalIndent(map[string]any{"Replace": overlay}, "", " ")
	if err := os.WriteFile(filepath.Join(*out, "overlay.json"), ov, 0o644); err != nil {
		fatal("%v", err)
	}
	keys := make([]string, 0, len(counts))
	for k := range counts {
		keys = append(keys, k)
	}
	sort.Strings(keys)
	rep := map[string]any{"sites": counts, "files_rewritten": len(overlay)}
	b, _ := json.Marshal(rep)
	fmt.Println(string(b))
}

func fatal(format string, args ...any) {
	fmt.Fprintf(os.Stderr, "instrument: "+format+"\n", args...)
	os.Exit(2)
}

func recvTypeName(fd *ast.FuncDecl) (recvName, typeName string) {
	if fd.Recv == nil || len(fd.Recv.List) != 1 {
		return "", ""
	}
	r := fd.Recv.List[0]
	if len(r.Names) == 1 {
		recvName = r.Names[0].Name
	}
	t := r.Type
	if st, ok := t.(*ast.StarExpr); ok {
		t = st.X
	}
	switch x := t.(type) {
	case *ast.Ident:
		typeName = x.Name
	case *ast.IndexExpr:
		if id, ok := x.X.(*ast.Ident); ok {
			typeName = id.Name
		}
	case *ast.IndexListExpr:
		if id, ok := x.X.(*ast.Ident); ok {
			typeName = id.Name
		}
	}
	return
}

func call(fn string, args ...ast.Expr) *ast.CallExpr {
	return &ast.CallExpr{Fun: ast.NewIdent(fn), Args: args}
}

func paramNames(fd *ast.FuncDecl) []string {
	var out []string
	for _, f := range fd.Type.Params.List {
		for _, n := range f.Names {
			out = append(out, n.Name)
		}
	}
	return out
}

// r1: inside (*randomBitStream).drawBits, X.ctx.rand() -> verifWord(X, X.ctx.rand(), n);
// first statement of (*randomBitStream).init(seed) gets verifSeeded(X, seed).
func ruleR1(fi *fileInfo) {
	for _, d := range fi.f.Decls {
		fd, ok := d.(*ast.FuncDecl)
		if !ok || fd.Body == nil {
			continue
		}
		rn, tn := recvTypeName(fd)
		if tn != "randomBitStream" || rn == "" {
			continue
		}
		ps := paramNames(fd)
		switch fd.Name.Name {
		case "drawBits":
			if len(ps) != 1 {
				continue
			}
			rewriteExprs(fd.Body, func(e ast.Expr) ast.Expr {
				c, ok := e.(*ast.CallExpr)
				if !ok || len(c.Args) != 0 {
					return nil
				}
				sel, ok := c.Fun.(*ast.SelectorExpr)
				if !ok || sel.Sel.Name != "rand" {
					return nil
				}
				counts["r1"]++
				fi.dirt = true
				return call("verifWord", ast.NewIdent(rn), c, ast.NewIdent(ps[0]))
			})
		case "init":
			if len(ps) != 1 {
				continue
			}
			st := &ast.ExprStmt{X: call("verifSeeded", ast.NewIdent(rn), ast.NewIdent(ps[0]))}
			fd.Body.List = append([]ast.Stmt{st}, fd.Body.List...)
			counts["r1"]++
			fi.dirt = true
		}
	}
}

// r2: time.Now/Until/Since -> verifNow/verifUntil/verifSince.
func ruleR2(fi *fileInfo) {
	timeName := importName(fi.f, "time")
	if timeName == "" {
		return
	}
	n := 0
	rewriteExprs(fi.f, func(e ast.Expr) ast.Expr {
		sel, ok := e.(*ast.SelectorExpr)
		if !ok {
			return nil
		}
		id, ok := sel.X.(*ast.Ident)
		if !ok || id.Name != timeName || id.Obj != nil {
			return nil
		}
		switch sel.Sel.Name {
		case "Now":
			n++
			return ast.NewIdent("verifNow")
		case "Until":
			n++
			return ast.NewIdent("verifUntil")
		case "Since":
			n++
			return ast.NewIdent("verifSince")
		}
		return nil
	})
	if n > 0 {
		counts["r2"] += n
		fi.dirt = true
		keepImport(fi.f, timeName, "Time")
	}
}

// r5: first statement of newBufBitStream(buf, persist) gets verifOnBuf(buf, persist).
func ruleR5(fi *fileInfo) {
	for _, d := range fi.f.Decls {
		fd, ok := d.(*ast.FuncDecl)
		if !ok || fd.Body == nil || fd.Recv != nil || fd.Name.Name != "newBufBitStream" {
			continue
		}
		ps := paramNames(fd)
		if len(ps) != 2 {
			continue
		}
		st := &ast.ExprStmt{X: call("verifOnBuf", ast.NewIdent(ps[0]), ast.NewIdent(ps[1]))}
		fd.Body.List = append([]ast.Stmt{st}, fd.Body.List...)
		counts["r5"]++
		fi.dirt = true
	}
}

// r6: in persist.go, os.{MkdirAll,CreateTemp,Rename,Remove,Open} -> vfs.X
func ruleR6(fi *fileInfo) {
	osName := importName(fi.f, "os")
	if osName == "" {
		return
	}
	n := 0
	rewriteExprs(fi.f, func(e ast.Expr) ast.Expr {
		sel, ok := e.(*ast.SelectorExpr)
		if !ok {
			return nil
		}
		id, ok := sel.X.(*ast.Ident)
		if !ok || id.Name != osName || id.Obj != nil {
			return nil
		}
		switch sel.Sel.Name {
		case "MkdirAll", "CreateTemp", "Rename", "Remove", "Open", "WriteFile", "Create", "OpenFile", "Mkdir", "RemoveAll", "Link", "Symlink":
			n++
			return &ast.SelectorExpr{X: ast.NewIdent("vfs"), Sel: ast.NewIdent(sel.Sel.Name)}
		}
		return nil
	})
	if n > 0 {
		counts["r6"] += n
		fi.dirt = true
		addImport(fi.f, "vfs", "pgregory.net/rapid/verifrt/vfs")
		keepImport(fi.f, osName, "Getpid")
	}
}

// r3: import "sync" -> sync "pgregory.net/rapid/verifrt/vsync"; "sync/atomic" -> atomic ".../vatomic"
func ruleR3(fi *fileInfo) {
	for _, im := range fi.f.Imports {
		switch im.Path.Value {
		case `"sync"`:
			if im.Name == nil {
				im.Name = ast.NewIdent("sync")
			}
			im.Path.Value = `"pgregory.net/rapid/verifrt/vsync"`
			counts["r3"]++
			fi.dirt = true
		case `"sync/atomic"`:
			if im.Name == nil {
				im.Name = ast.NewIdent("atomic")
			}
			im.Path.Value = `"pgregory.net/rapid/verifrt/vatomic"`
			counts["r3"]++
			fi.dirt = true
		}
	}
}

func importName(f *ast.File, path string) string {
	for _, im := range f.Imports {
		if im.Path.Value == `"`+path+`"` {
			if im.Name != nil {
				return im.Name.Name
			}
			return filepath.Base(path)
		}
	}
	return ""
}

func addImport(f *ast.File, name, path string) {
	for _, im := range f.Imports {
		if im.Path.Value == `"`+path+`"` {
			return
		}
	}
	spec := &ast.ImportSpec{Name: ast.NewIdent(name), Path: &ast.BasicLit{Kind: token.STRING, Value: `"` + path + `"`}}
	for _, d := range f.Decls {
		if gd, ok := d.(*ast.GenDecl); ok && gd.Tok == token.IMPORT {
			gd.Specs = append(gd.Specs, spec)
			if !gd.Lparen.IsValid() {
				gd.Lparen = gd.Pos()
				gd.Rparen = gd.End()
			}
			f.Imports = append(f.Imports, spec)
			return
		}
	}
	gd := &ast.GenDecl{Tok: token.IMPORT, Specs: []ast.Spec{spec}}
	f.Decls = append([]ast.Decl{gd}, f.Decls...)
	f.Imports = append(f.Imports, spec)
}

// keepImport appends `var _ = pkg.sym`-style use so that the import stays used.
func keepImport(f *ast.File, pkg, sym string) {
	var spec ast.Spec
	if sym == "Time" {
		spec = &ast.ValueSpec{Names: []*ast.Ident{ast.NewIdent("_")}, Type: &ast.SelectorExpr{X: ast.NewIdent(pkg), Sel: ast.NewIdent(sym)}}
	} else {
		spec = &ast.ValueSpec{Names: []*ast.Ident{ast.NewIdent("_")}, Values: []ast.Expr{&ast.SelectorExpr{X: ast.NewIdent(pkg), Sel: ast.NewIdent(sym)}}}
	}
	f.Decls = append(f.Decls, &ast.GenDecl{Tok: token.VAR, Specs: []ast.Spec{spec}})
}
