#!/usr/bin/env python3
"""Systematic first-order mutation sweep over rapid's sources (a complement to the hand-written seeded changes).

stage 1 (gen+filter):  mutsweep.py filter <file.go>... [-j N] [-o survivors.jsonl]
    every single-token mutant of the named files (relational operators, +-1 constants, && / ||, true/false,
    dropped statement, early return of a negated guard) is applied to a scratch worktree of /repo's HEAD;
    a mutant SURVIVES if the package still builds and the repository's own suite passes with it.
stage 2 (check):       mutsweep.py check survivors.jsonl [-n MAX] [-o results.jsonl] [--seed S]
    each surviving mutant is applied to a scratch worktree and the quick checks mapped to its file are run
    against it with VERIF_REPO; a mutant is DETECTED if some check exits 1 (exit 2 = harness error is reported apart).
Nothing is written to /repo or /verif/evidence; worktrees live under /tmp/mutsweep and are removed at the end.
"""
import sys, os, re, json, subprocess, random, argparse, shutil, concurrent.futures as cf

ENV = dict(os.environ, GOFLAGS='-mod=mod', GOPROXY='off', GOSUMDB='off', GOTOOLCHAIN='local')
ROOT = '/tmp/mutsweep'
CHECKS = {
    'floats.go': ['C03', 'C18', 'C12'], 'integers.go': ['C03', 'C18', 'C12'], 'utils.go': ['C04', 'C03', 'C18', 'C12'],
    'collections.go': ['C03', 'C04', 'C12'], 'data.go': ['C04', 'C13', 'C01'], 'shrink.go': ['C12', 'C05', 'C01'],
    'generator.go': ['C03', 'C04', 'C15'], 'combinators.go': ['C03', 'C04', 'C02'], 'strings.go': ['C03', 'C04', 'C15'],
    'make.go': ['C03'], 'statemachine.go': ['C08', 'C04'], 'persist.go': ['C06', 'C17', 'C16'],
    'engine.go': ['C02', 'C09', 'C10', 'C11', 'C07', 'C01', 'C13', 'C14'],
}

SUBS = [  # (regex, replacement, name)
    (r' <= ', ' < ', 'le->lt'), (r' >= ', ' > ', 'ge->gt'), (r' < ', ' <= ', 'lt->le'), (r' > ', ' >= ', 'gt->ge'),
    (r' == ', ' != ', 'eq->ne'), (r' != ', ' == ', 'ne->eq'), (r' && ', ' || ', 'and->or'), (r' \|\| ', ' && ', 'or->and'),
    (r'\btrue\b', 'false', 'true->false'), (r'\bfalse\b', 'true', 'false->true'),
    (r' \+ 1\b', ' + 0', 'plus1->plus0'), (r' - 1\b', ' - 0', 'minus1->minus0'), (r' \+ 1\b', ' + 2', 'plus1->plus2'),
    (r'\+\+$', '--', 'inc->dec'), (r' \+= ', ' -= ', 'addassign->subassign'),
    (r' \+ ', ' - ', 'plus->minus'), (r' - ', ' + ', 'minus->plus'), (r'<<', '>>', 'shl->shr'),
    (r'\b0\b', '1', 'zero->one'), (r'\b1\b', '0', 'one->zero'), (r'\b1\b', '2', 'one->two'),
]


def mutants_of(path):
    src = open(path).read().split('\n')
    out = []
    in_block_comment = False
    for ln, line in enumerate(src):
        s = line.strip()
        if s.startswith('/*'):
            in_block_comment = True
        if in_block_comment:
            if '*/' in s:
                in_block_comment = False
            continue
        if not s or s.startswith('//') or s.startswith('import') or s.startswith('package') or s.startswith('"'):
            continue
        code = line.split('//')[0] if '"' not in line else line
        # token substitutions: every occurrence separately
        for rx, rep, name in SUBS:
            for m in re.finditer(rx, code):
                # skip matches inside string literals (rough: odd number of quotes before)
                if code[:m.start()].count('"') % 2 == 1 or code[:m.start()].count('`') % 2 == 1:
                    continue
                new = code[:m.start()] + rep + code[m.end():] + line[len(code):]
                if new != line:
                    out.append({'line': ln + 1, 'op': name, 'old': line, 'new': new})
        # statement deletion: simple assignments and call statements that stand on their own line
        if re.match(r'^\s*[\w\.\[\]\*]+(\([^)]*\))?\s*(=|\+=|-=|\|=)\s*[^=].*[^{,(]$', line) and ':=' not in line:
            out.append({'line': ln + 1, 'op': 'del-assign', 'old': line, 'new': re.match(r'^\s*', line).group(0) + '// mutant: ' + s})
        elif re.match(r'^\s*[\w\.]+\([^{]*\)$', line) and not s.startswith(('return', 'defer', 'go ', 'func', 'panic', 'assert')):
            out.append({'line': ln + 1, 'op': 'del-call', 'old': line, 'new': re.match(r'^\s*', line).group(0) + '// mutant: ' + s})
        elif re.match(r'^\s*defer [\w\.]+\(.*\)$', line):
            out.append({'line': ln + 1, 'op': 'del-defer', 'old': line, 'new': re.match(r'^\s*', line).group(0) + '// mutant: ' + s})
        # negate an if-guard
        m = re.match(r'^(\s*(?:} else )?if )([^;{]+)( \{)$', line)
        if m:
            out.append({'line': ln + 1, 'op': 'negate-if', 'old': line, 'new': m.group(1) + '!(' + m.group(2) + ')' + m.group(3)})
    return out


def sh(cmd, cwd=None, timeout=600, env=ENV):
    try:
        p = subprocess.run(cmd, cwd=cwd, env=env, shell=isinstance(cmd, str), stdout=subprocess.PIPE, stderr=subprocess.STDOUT, timeout=timeout)
        return p.returncode, p.stdout.decode('utf8', 'replace')
    except subprocess.TimeoutExpired as e:
        return 124, (e.stdout or b'').decode('utf8', 'replace')


def worktree(name):
    d = f'{ROOT}/{name}'
    if os.path.isdir(d):
        sh(['git', '-C', '/repo', 'worktree', 'remove', '--force', d])
        shutil.rmtree(d, ignore_errors=True)
    os.makedirs(ROOT, exist_ok=True)
    rc, out = sh(['git', '-C', '/repo', 'worktree', 'add', '-q', '--detach', d, 'HEAD'])
    assert rc == 0, out
    return d


def drop(d):
    sh(['git', '-C', '/repo', 'worktree', 'remove', '--force', d])
    shutil.rmtree(d, ignore_errors=True)


def apply(d, mut):
    p = f"{d}/{mut['file']}"
    src = open(p).read().split('\n')
    assert src[mut['line'] - 1] == mut['old'], (mut, src[mut['line'] - 1])
    src[mut['line'] - 1] = mut['new']
    open(p, 'w').write('\n'.join(src))


def filter_worker(args):
    wid, muts = args
    d = worktree(f'f{wid}')
    res = []
    for mut in muts:
        sh(['git', 'checkout', '-q', '--', '.'], cwd=d)
        apply(d, mut)
        rc, out = sh('go build . 2>&1 && go vet -tags verif . >/dev/null 2>&1; go build -tags verif . 2>&1', cwd=d, timeout=300)
        if rc != 0:
            mut['stage1'] = 'no-build'
        else:
            rc, out = sh('go test -vet=off -count=1 -timeout 180s . 2>&1 | tail -5', cwd=d, timeout=300)
            ok = rc == 0 and re.search(r'^ok\s', out, re.M) is not None
            mut['stage1'] = 'survives' if ok else 'killed-by-suite'
        res.append(mut)
        print(f"[{wid}] {mut['file']}:{mut['line']} {mut['op']}: {mut['stage1']}", flush=True)
    drop(d)
    return res


def cmd_filter(a):
    muts = []
    for f in a.files:
        for m in mutants_of(f'/repo/{f}'):
            m['file'] = f
            muts.append(m)
    random.Random(a.seed).shuffle(muts)
    if a.n:
        muts = muts[:a.n]
    print(f'{len(muts)} mutants', flush=True)
    chunks = [(i, muts[i::a.j]) for i in range(a.j)]
    allres = []
    with cf.ThreadPoolExecutor(a.j) as ex:
        for r in ex.map(filter_worker, chunks):
            allres += r
    with open(a.o, 'a') as f:
        for m in allres:
            f.write(json.dumps(m) + '\n')
    from collections import Counter
    print(Counter(m['stage1'] for m in allres))


def cmd_check(a):
    muts = [json.loads(l) for l in open(a.survivors)]
    muts = [m for m in muts if m.get('stage1') == 'survives']
    done = set()
    if os.path.exists(a.o):
        for l in open(a.o):
            r = json.loads(l)
            done.add((r['file'], r['line'], r['op'], r['new']))
    muts = [m for m in muts if (m['file'], m['line'], m['op'], m['new']) not in done]
    if a.files:
        muts = [m for m in muts if m['file'] in a.files]
    random.Random(a.seed).shuffle(muts)
    if a.n:
        muts = muts[:a.n]
    d = worktree('c0')
    env = dict(ENV, VERIF_REPO=d)
    if a.workers:
        env['VERIF_WORKERS'] = str(a.workers)
    for mut in muts:
        sh(['git', 'checkout', '-q', '--', '.'], cwd=d)
        apply(d, mut)
        mut['checks'] = {}
        mut['detected'] = False
        for c in CHECKS[mut['file']]:
            rc, out = sh(['/verif/checks/run.sh', c, 'quick'], cwd='/verif', env=env, timeout=900)
            sigs = sorted(set(re.findall(r'^  signature: (.*)$', out, re.M)))[:3]
            mut['checks'][c] = {'rc': rc, 'sigs': sigs, 'harness': re.findall(r'HARNESS-ERROR.*', out)[:1]}
            if rc == 1:
                mut['detected'] = True
                break
        print(f"{mut['file']}:{mut['line']} {mut['op']} detected={mut['detected']} " + ' '.join(f"{c}={v['rc']}" for c, v in mut['checks'].items()) + f"   | {mut['old'].strip()}  =>  {mut['new'].strip()}", flush=True)
        with open(a.o, 'a') as f:
            f.write(json.dumps(mut) + '\n')
    drop(d)


if __name__ == '__main__':
    ap = argparse.ArgumentParser()
    sub = ap.add_subparsers(dest='cmd')
    p = sub.add_parser('filter'); p.add_argument('files', nargs='+'); p.add_argument('-j', type=int, default=4); p.add_argument('-o', default='/tmp/mutsweep/survivors.jsonl'); p.add_argument('-n', type=int, default=0); p.add_argument('--seed', type=int, default=1)
    p = sub.add_parser('check'); p.add_argument('survivors'); p.add_argument('-n', type=int, default=0); p.add_argument('-o', default='/tmp/mutsweep/results.jsonl'); p.add_argument('--seed', type=int, default=1); p.add_argument('--workers', type=int, default=0); p.add_argument('--files', nargs='*')
    p = sub.add_parser('count'); p.add_argument('files', nargs='+')
    a = ap.parse_args()
    if a.cmd == 'filter':
        cmd_filter(a)
    elif a.cmd == 'check':
        cmd_check(a)
    elif a.cmd == 'count':
        for f in a.files:
            print(f, len(mutants_of(f'/repo/{f}')))
