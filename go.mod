module verif

go 1.23

require (
	github.com/anishathalye/porcupine v1.3.0
	golang.org/x/tools v0.29.0
	pgregory.net/rapid v0.0.0-00010101000000-000000000000
)

replace pgregory.net/rapid => /repo
