module verif

go 1.23

require (
	golang.org/x/tools v0.29.0
	pgregory.net/rapid v0.0.0-00010101000000-000000000000
)

replace pgregory.net/rapid => /repo
