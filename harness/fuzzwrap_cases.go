package harness

import (
	"fmt"
	"os"
	"os/exec"
	"regexp"
	"strings"

	"pgregory.net/rapid"
)

type FuzzWrapCase struct {
	Name   string
	Prop   func(t *rapid.T)
	Input  []byte
	Expect string // pass, skip, fail - predicted by the independent word replay
}

// FuzzWrapCases: a fixed list of (property, input) pairs with all three outcomes.
func FuzzWrapCases() []FuzzWrapCase {
	var out []FuzzWrapCase
	tb := NewTB("wrap")
	tb.Quiet = true
	progs := []string{"Int64()", "SliceOfDistinct(IntRange(0,2))", "StringN(-1,-1,3)", "Int8().Filter(even)", "MapOf(Bool(),Int8())", "Custom(skip-odd)", "Float64()", "Repeat(draw,skip-before,skip-after)"}
	byName := map[string]Prog{}
	for _, p := range AllProgs() {
		byName[p.Name] = p
	}
	n := 0
	for _, pn := range progs {
		p, ok := byName[pn]
		if !ok {
			continue
		}
		for v := 0; v < 8; v++ {
			body := p.New()
			input := make([]byte, 3+v*7)
			for i := range input {
				input[i] = byte((i*37 + v*101 + len(pn)) ^ (0xff * (v & 1)))
			}
			rec := &Rec{}
			prop := c04Prop(body, rec)
			ref, _ := runWith(p.New(), func(pr func(*rapid.T)) rapid.VerifResult { return rapid.VerifRunBuf(tb, wordsOfBytes(input), false, pr) })
			n++
			out = append(out, FuzzWrapCase{Name: fmt.Sprintf("case%02d", n), Prop: prop, Input: input, Expect: classOfKind(ref.res.Kind)})
		}
	}
	return out
}

var reSub = regexp.MustCompile(`(?m)^\s+--- (PASS|FAIL|SKIP): TestFuzzWrapper/(case\d+)`)

func fuzzWrapUnit() Unit {
	return Unit{Name: "C13/MakeFuzz-wrapper (real *testing.T)", Run: func(c *Ctx) {
		bin := os.Getenv("VERIF_FUZZWRAP_BIN")
		if bin == "" {
			c.R.HarnessErr = "VERIF_FUZZWRAP_BIN not set: checks/run.sh builds the wrapper test binary for C13"
			return
		}
		out, _ := exec.Command(bin, "-test.run", "TestFuzzWrapper", "-test.v", "-rapid.nofailfile").CombinedOutput()
		got := map[string]string{}
		for _, m := range reSub.FindAllStringSubmatch(string(out), -1) {
			got[m[2]] = strings.ToLower(m[1])
		}
		cases := FuzzWrapCases()
		if len(got) != len(cases) {
			c.R.HarnessErr = fmt.Sprintf("wrapper test reported %d sub-tests, expected %d: %s", len(got), len(cases), trunc(string(out), 800))
			return
		}
		seen := map[string]int{}
		for _, cs := range cases {
			c.R.Evals++
			c.R.States++
			c.R.Transitions++
			seen[cs.Expect]++
			c.Outcome(cs.Name+" "+got[cs.Name], true)
			if got[cs.Name] != cs.Expect {
				c.Violate(Violation{Sig: "C13 wrapper-status-differs", Detail: fmt.Sprintf("%s: rapid.MakeFuzz(prop)(t, input) ended as %s on a real *testing.T, the independent word replay of input %x predicts %s", cs.Name, got[cs.Name], cs.Input, cs.Expect),
					Replay: map[string]any{"engine": "fuzzwrap", "case": cs.Name, "input_hex": fmt.Sprintf("%x", cs.Input)}})
			}
		}
		c.Count("wrapper_cases_pass", int64(seen["pass"]))
		c.Count("wrapper_cases_skip", int64(seen["skip"]))
		c.Count("wrapper_cases_fail", int64(seen["fail"]))
	}}
}
