package harness

import (
	"fmt"
	"os"
	"os/exec"
	"regexp"
	"strings"

	"pgregory.net/rapid"
)

type FuzzWrapCase struct {
	Name   string
	Prop   func(t *rapid.T)
	Input  []byte
	Expect string // pass, skip, fail - predicted by the independent word replay
}

// FuzzWrapCases: a fixed list of (property, input) pairs with all three outcomes.
func FuzzWrapCases() []FuzzWrapCase {
	var out []FuzzWrapCase
	tb := NewTB("wrap")
	tb.Quiet = true
	progs := []string{"Int64()", "SliceOfDistinct(IntRange(0,2))", "StringN(-1,-1,3)", "Int8().Filter(even)", "MapOf(Bool(),Int8())", "Custom(skip-odd)", "Float64()", "Repeat(draw,skip-before,skip-after)"}
	byName := map[string]Prog{}
	for _, p := range AllProgs() {
		byName[p.Name] = p
	}
	n := 0
	for _, pn := range progs {
		p, ok := byName[pn]
		if !ok {
			continue
		}
		for v := 0; v < 8; v++ {
			body := p.New()
			input := make([]byte, 3+v*7)
			for i := range input {
				input[i] = byte((i*37 + v*101 + len(pn)) ^ (0xff * (v & 1)))
			}
			rec := &Rec{}
			prop := c04Prop(body, rec)
			ref, _ := runWith(p.New(), func(pr func(*rapid.T)) rapid.VerifResult {
				return rapid.VerifRunBuf(tb, wordsOfBytes(input), false, pr)
			})
			n++
			out = append(out, FuzzWrapCase{Name: fmt.Sprintf("case%02d", n), Prop: prop, Input: input, Expect: classOfKind(ref.res.Kind)})
		}
	}
	// the shortest inputs (empty, one byte, around one word) for every program, and properties that
	// consume nothing at all: the wrapper itself must not decide anything from the length of the input
	zero := []Prog{
		{Name: "pass-without-drawing", New: func() func(t *rapid.T, r *Rec) { return func(t *rapid.T, r *Rec) {} }},
		{Name: "fail-without-drawing", New: func() func(t *rapid.T, r *Rec) {
			return func(t *rapid.T, r *Rec) { t.Fatalf("fails before its first draw") }
		}},
		{Name: "skip-without-drawing", New: func() func(t *rapid.T, r *Rec) { return func(t *rapid.T, r *Rec) { t.Skip("nothing to do") } }},
		{Name: "errorf-in-cleanup-without-drawing", New: func() func(t *rapid.T, r *Rec) {
			return func(t *rapid.T, r *Rec) { t.Cleanup(func() { t.Errorf("fails in its cleanup") }) }
		}},
	}
	var short []Prog
	for _, pn := range progs {
		if p, ok := byName[pn]; ok {
			short = append(short, p)
		}
	}
	for _, p := range append(zero, short...) {
		for _, l := range []int{0, 1, 7, 8, 9, 16} {
			for _, fill := range []byte{0, 0xff} {
				if l == 0 && fill != 0 {
					continue
				}
				input := make([]byte, l)
				for i := range input {
					input[i] = fill
				}
				body := p.New()
				rec := &Rec{}
				ref, _ := runWith(p.New(), func(pr func(*rapid.T)) rapid.VerifResult {
					return rapid.VerifRunBuf(tb, wordsOfBytes(input), false, pr)
				})
				n++
				out = append(out, FuzzWrapCase{Name: fmt.Sprintf("case%02d", n), Prop: c04Prop(body, rec), Input: input, Expect: classOfKind(ref.res.Kind)})
			}
		}
	}
	return out
}

var reSub = regexp.MustCompile(`(?m)^\s+--- (PASS|FAIL|SKIP): TestFuzzWrapper/(case\d+)`)

func fuzzWrapUnit() Unit {
	return Unit{Name: "C13/MakeFuzz-wrapper (real *testing.T)", Run: func(c *Ctx) {
		bin := os.Getenv("VERIF_FUZZWRAP_BIN")
		if bin == "" {
			c.R.HarnessErr = "VERIF_FUZZWRAP_BIN not set: checks/run.sh builds the wrapper test binary for C13"
			return
		}
		out, _ := exec.Command(bin, "-test.run", "TestFuzzWrapper", "-test.v", "-rapid.nofailfile").CombinedOutput()
		got := map[string]string{}
		for _, m := range reSub.FindAllStringSubmatch(string(out), -1) {
			got[m[2]] = strings.ToLower(m[1])
		}
		cases := FuzzWrapCases()
		if len(got) != len(cases) {
			c.R.HarnessErr = fmt.Sprintf("wrapper test reported %d sub-tests, expected %d: %s", len(got), len(cases), trunc(string(out), 800))
			return
		}
		seen := map[string]int{}
		for _, cs := range cases {
			c.R.Evals++
			c.R.States++
			c.R.Transitions++
			seen[cs.Expect]++
			c.Outcome(cs.Name+" "+got[cs.Name], true)
			if got[cs.Name] != cs.Expect {
				c.Violate(Violation{Sig: "C13 wrapper-status-differs", Detail: fmt.Sprintf("%s: rapid.MakeFuzz(prop)(t, input) ended as %s on a real *testing.T, the independent word replay of input %x predicts %s", cs.Name, got[cs.Name], cs.Input, cs.Expect),
					Replay: map[string]any{"engine": "fuzzwrap", "case": cs.Name, "input_hex": fmt.Sprintf("%x", cs.Input)}})
			}
		}
		c.Count("wrapper_cases_pass", int64(seen["pass"]))
		c.Count("wrapper_cases_skip", int64(seen["skip"]))
		c.Count("wrapper_cases_fail", int64(seen["fail"]))
	}}
}

type CheckWrapCase struct {
	Name   string
	Make   bool
	Prop   func(t *rapid.T)
	Expect string // pass or fail
}

func CheckWrapCases() []CheckWrapCase {
	pass := func(t *rapid.T) { rapid.Int().Draw(t, "x") }
	fatal := func(t *rapid.T) {
		if rapid.IntRange(0, 100).Draw(t, "x") >= 3 {
			t.Fatalf("too big")
		}
	}
	nonfatal := func(t *rapid.T) {
		if rapid.IntRange(0, 100).Draw(t, "x") >= 3 {
			t.Errorf("too big, non-fatally")
		}
	}
	pan := func(t *rapid.T) {
		if rapid.IntRange(0, 100).Draw(t, "x") >= 3 {
			panic("boom")
		}
	}
	skipAll := func(t *rapid.T) { rapid.Bool().Draw(t, "b"); t.Skip("never valid") }
	cleanupFail := func(t *rapid.T) {
		x := rapid.IntRange(0, 100).Draw(t, "x")
		t.Cleanup(func() {
			if x >= 3 {
				t.Errorf("fails in cleanup")
			}
		})
	}
	return []CheckWrapCase{
		{"check-pass", false, pass, "pass"}, {"check-fatal", false, fatal, "fail"}, {"check-nonfatal", false, nonfatal, "fail"},
		{"check-panic", false, pan, "fail"}, {"check-skip-all", false, skipAll, "fail"}, {"check-cleanup-fail", false, cleanupFail, "fail"},
		{"make-pass", true, pass, "pass"}, {"make-fatal", true, fatal, "fail"}, {"make-nonfatal", true, nonfatal, "fail"}, {"make-skip-all", true, skipAll, "fail"},
	}
}

var reSubCheck = regexp.MustCompile(`(?m)^\s+--- (PASS|FAIL|SKIP): TestCheckWrapper/(\S+)`)

func checkWrapUnit() Unit {
	return Unit{Name: "C09/Check+MakeCheck on a real *testing.T", Run: func(c *Ctx) {
		bin := os.Getenv("VERIF_FUZZWRAP_BIN")
		if bin == "" {
			c.R.HarnessErr = "VERIF_FUZZWRAP_BIN not set: checks/run.sh builds the wrapper test binary for C09/C13"
			return
		}
		out, _ := exec.Command(bin, "-test.run", "TestCheckWrapper", "-test.v", "-rapid.nofailfile", "-rapid.checks=20", "-rapid.seed=7").CombinedOutput()
		got := map[string]string{}
		for _, m := range reSubCheck.FindAllStringSubmatch(string(out), -1) {
			got[m[2]] = strings.ToLower(m[1])
		}
		cases := CheckWrapCases()
		if len(got) != len(cases) {
			c.R.HarnessErr = fmt.Sprintf("wrapper test reported %d sub-tests, expected %d: %s", len(got), len(cases), trunc(string(out), 800))
			return
		}
		for _, cs := range cases {
			c.R.Evals++
			c.R.States++
			c.R.Transitions++
			after := strings.Contains(string(out), "AFTER-CHECK "+cs.Name)
			c.Outcome(fmt.Sprintf("%s %s after=%v", cs.Name, got[cs.Name], after), true)
			replay := map[string]any{"engine": "checkwrap", "case": cs.Name}
			if got[cs.Name] != cs.Expect {
				c.Violate(Violation{Sig: "C09 real-testing.T status-differs case=" + cs.Name, Detail: fmt.Sprintf("%s on a real *testing.T ended as %s, expected %s", cs.Name, got[cs.Name], cs.Expect), Replay: replay})
			}
			if cs.Expect == "fail" && after {
				c.Violate(Violation{Sig: "C09 real-testing.T failed-check-did-not-stop-the-test case=" + cs.Name, Detail: "code after a failed Check ran: the enclosing test was not stopped (FailNow)", Replay: replay})
			}
			if cs.Expect == "pass" && !after {
				c.Violate(Violation{Sig: "C09 real-testing.T passing-check-stopped-the-test case=" + cs.Name, Detail: "code after a passing Check did not run", Replay: replay})
			}
		}
	}}
}

var reSync = regexp.MustCompile(`(?m)^SYNCTEST case=(\S+) outcome=(\S+) runs=(\d+)(.*)$`)

// synctestUnit: Check / MakeCheck called inside a testing/synctest bubble on a real *testing.T of a newer
// toolchain: the promised number of test cases runs, nothing panics.
func synctestUnit() Unit {
	return Unit{Name: "C09/Check inside a testing/synctest bubble (toolchain go1.25+)", Run: func(c *Ctx) {
		bin := os.Getenv("VERIF_SYNCTEST_BIN")
		if bin == "" {
			c.Cap("no Go 1.25+ toolchain in this environment: the synctest scenario is not run")
			return
		}
		out, _ := exec.Command(bin, "-test.run", "TestSynctestCheck", "-test.v", "-rapid.nofailfile", "-rapid.checks=100", "-rapid.seed=7").CombinedOutput()
		ms := reSync.FindAllStringSubmatch(string(out), -1)
		if len(ms) < 3 {
			c.R.HarnessErr = "synctest binary printed fewer than 3 result lines: " + trunc(string(out), 600)
			return
		}
		for _, m := range ms {
			c.R.Evals++
			c.R.States++
			c.R.Transitions++
			c.Outcome(m[0], true)
			if m[2] != "returned" || m[3] != "100" || strings.Contains(m[4], "failed=true") {
				c.Violate(Violation{Sig: "C09 check-inside-synctest-bubble case=" + m[1] + " outcome=" + m[2], Detail: "a never-falsified property with -rapid.checks=100 inside synctest.Test on a go1.26 *testing.T: " + m[0],
					Replay: map[string]any{"engine": "synctest", "case": m[1]}})
			}
		}
	}}
}
