package harness

// C09 - Check does the promised amount of work and never passes vacuously.
// E2 with only {pass, skip, fail}: every pass/skip/fail sequence for N in {1,2,3},
// deviation-bounded for larger N, with 0..2 fail files present; compared step by step
// with a reference model of findBug/checkTB (two counters, the 10*N budget, the verdict).

import (
	"flag"
	"fmt"
	"os"
	"path/filepath"
	"strings"
	"time"

	"pgregory.net/rapid"
)

// uniqueProg draws one full-range Uint64: practically every test case is a distinct key,
// so the i-th key is the i-th test case and behaviour sequences can be enumerated directly.
func uniqueProg(base Beh) *LazyProgram {
	return &LazyProgram{
		Name: "uint64-unique/base=" + base.String(),
		Body: func(t *rapid.T, e *Env) {
			x := rapid.Uint64().Draw(t, "x")
			e.cur.Draws = fmt.Sprint(x)
			e.Do(t, "body", fmt.Sprint(x))
		},
		Base: func(ctx, draws string) Beh { return base },
	}
}

type c09File struct {
	kind string // pass, skip, fail, garbage, oldversion, empty
	key  string
}

// c09Model predicts the invocation kinds up to and including the first falsified case.
// seq(i) gives the behaviour of the i-th *random* test case.
func c09Model(n int, files []c09File, seq func(i int) Beh) (kinds []string, verdict string, valid, invalid int) {
	for _, f := range files {
		switch f.kind {
		case "pass":
			kinds = append(kinds, "pass")
		case "skip":
			kinds = append(kinds, "skip")
		case "fail":
			kinds = append(kinds, "fail", "fail") // run + reproduce
			return kinds, "failed-file", 0, 0
		}
	}
	for i := 0; valid < n && invalid < 10*n; i++ {
		b := seq(i)
		switch {
		case b.Falsifies():
			kinds = append(kinds, "fail")
			return kinds, "failed", valid, invalid
		case b.Skips():
			kinds = append(kinds, "skip")
			invalid++
		default:
			kinds = append(kinds, "pass")
			valid++
		}
	}
	if valid == n {
		return kinds, "ok", valid, invalid
	}
	return kinds, "only-generated", valid, invalid
}

func invKind(inv *Invocation) string {
	switch {
	case inv.Falsified():
		return "fail"
	case inv.Skipped:
		return "skip"
	default:
		return "pass"
	}
}

func c09Units(tier string, seed int64) []Unit {
	quick := tier != "thorough"
	var units []Unit
	alpha := func(ctx string) []Beh { return []Beh{BPass, BSkip, BFatalA, BCleanupErrorfSkip, BCleanupSkip} }
	type scen struct {
		n      int
		base   Beh
		maxDev int
		p      int
		files  []string
		stale  bool // the run is also given a -rapid.failfile written by another version: ignored, the stored files are still replayed first
		short  bool // -short: rapid.checks/5 valid cases are promised, and the skip budget follows that number
	}
	var scens []scen
	if quick {
		scens = append(scens,
			scen{n: 1, base: BPass, maxDev: 1000, p: 13},
			scen{n: 2, base: BPass, maxDev: 3, p: 24},
			scen{n: 3, base: BPass, maxDev: 2, p: 35},
			scen{n: 5, base: BPass, maxDev: 2, p: 57}, scen{n: 5, base: BSkip, maxDev: 1, p: 57},
			scen{n: 10, base: BPass, maxDev: 1, p: 112}, scen{n: 10, base: BSkip, maxDev: 1, p: 112},
			scen{n: 100, base: BPass, maxDev: 1, p: 1102}, scen{n: 100, base: BSkip, maxDev: 0, p: 1102})
	} else {
		for _, n := range []int{1, 2, 3} {
			scens = append(scens, scen{n: n, base: BPass, maxDev: 1000, p: 11*n + 2})
		}
		for _, n := range []int{5, 10, 100} {
			d := 3
			if n == 100 {
				d = 2
			}
			scens = append(scens, scen{n: n, base: BPass, maxDev: d, p: 11*n + 2})
			scens = append(scens, scen{n: n, base: BSkip, maxDev: d - 1, p: 11*n + 2})
		}
	}
	// -short: N/5 cases are promised; everything else (skip budget 10 per promised case, counts in the messages) follows
	for _, n := range []int{10, 25} {
		scens = append(scens, scen{n: n, base: BPass, maxDev: 1, p: 11*(n/5) + 2, short: true})
		scens = append(scens, scen{n: n, base: BSkip, maxDev: 1, p: 11*(n/5) + 2, short: true})
	}
	fileKinds := [][]string{{"pass"}, {"skip"}, {"fail"}, {"garbage"}, {"oldversion"}, {"empty"}, {"pass", "fail"}, {"garbage", "pass"}, {"skip", "skip"}, {"fail", "pass"}, {"oldversion", "fail"}}
	for _, fk := range fileKinds {
		scens = append(scens, scen{n: 2, base: BPass, maxDev: 1, p: 8, files: fk, stale: true})
		scens = append(scens, scen{n: 2, base: BPass, maxDev: 2, p: 8, files: fk})
		scens = append(scens, scen{n: 3, base: BSkip, maxDev: 1, p: 6, files: fk})
	}
	seeds := []uint64{uint64(seed)*31 + 1, uint64(seed)*31 + 12345}
	if !quick {
		seeds = append(seeds, uint64(seed)*31+777, uint64(seed)*31+99991)
	}
	for _, sc := range scens {
		for _, sd := range seeds {
			sc, sd := sc, sd
			name := fmt.Sprintf("C09/N=%d/base=%s/dev<=%d/files=%s/seed=%d", sc.n, sc.base, sc.maxDev, strings.Join(sc.files, "+"), sd)
			if sc.short {
				name += "/short"
			}
			if sc.stale {
				name += "/stale-failfile-flag"
			}
			units = append(units, Unit{Name: name, Run: func(c *Ctx) {
				prog := uniqueProg(sc.base)
				cfg := Config{Checks: sc.n, Seed: sd, ShrinkMS: 5, NoFailFile: true, Name: "TestC09", Short: sc.short}
				if sc.short {
					sc.n /= 5 // what Check promises under -short
				}
				if sc.stale {
					cfg.FailFile = "stale.fail"
				}
				// prepare fail files: each from a recording of a distinct PRNG seed
				var files []c09File
				assignFixed := []KV{}
				mkFiles := func() {
					CleanFailFiles()
					if sc.stale {
						os.WriteFile("stale.fail", []byte("# stale\nv0.0.1#3\n0x1"), 0o644)
					}
					files = files[:0]
					for i, k := range sc.files {
						dir, _ := rapid.VerifFailFileName("TestC09")
						os.MkdirAll(dir, 0o775)
						path := filepath.Join(dir, fmt.Sprintf("TestC09-2020010100000%d-1.fail", i))
						var x uint64
						res := rapid.VerifRunSeed(NewTB("x"), 1000+uint64(i), false, func(t *rapid.T) { x = rapid.Uint64().Draw(t, "x") })
						key := "body|" + fmt.Sprint(x)
						switch k {
						case "garbage":
							os.WriteFile(path, []byte("not a fail file\x00\xff\n0xzz\n"), 0o644)
						case "empty":
							os.WriteFile(path, nil, 0o644)
						case "oldversion":
							rapid.VerifSaveFailFile(path, "v0.0.1", []byte("old"), 5, res.Data)
						default:
							rapid.VerifSaveFailFile(path, rapid.VerifVersion(), []byte("log line"), 5, res.Data)
						}
						files = append(files, c09File{kind: k, key: key})
					}
				}
				mkFiles()
				for _, f := range files {
					switch f.kind {
					case "pass":
						assignFixed = append(assignFixed, KV{f.key, BPass})
					case "skip":
						assignFixed = append(assignFixed, KV{f.key, BSkip})
					case "fail":
						assignFixed = append(assignFixed, KV{f.key, BFatalA})
					}
				}
				fixed := map[string]Beh{}
				for _, kv := range assignFixed {
					fixed[kv.Key] = kv.Beh
				}
				base := prog.Base
				prog.Base = func(ctx, draws string) Beh {
					if b, ok := fixed[ctx+"|"+draws]; ok {
						return b
					}
					return base(ctx, draws)
				}
				d := &LazyDFS{Prog: prog, Cfg: cfg, Alphabet: alpha, P: sc.p, MaxDev: sc.maxDev, PreRun: mkFiles, OnlyUpToFirstFalsified: true}
				if quick {
					d.MaxRuns = 20000
				} else {
					d.MaxRuns = 200000
				}
				c.R.Bounds = fmt.Sprintf("N=%d deviations<=%d P=%d", sc.n, sc.maxDev, sc.p)
				d.Explore(c, func(log *RunLog, assign []KV, devs int) {
					env := log.Env
					// behaviour of the i-th random case = behaviour of the i-th key seen after the file keys
					fileKeySet := map[string]bool{}
					for _, f := range files {
						fileKeySet[f.key] = true
					}
					// the reference model is driven by the invocation log's own behaviours (never by intended positions)
					var randInvs []*Invocation
					for _, inv := range env.Invs {
						if len(inv.Decisions) > 0 && fileKeySet[inv.Decisions[0].Key] {
							continue
						}
						randInvs = append(randInvs, inv)
					}
					seq := func(i int) Beh {
						if i < len(randInvs) && len(randInvs[i].Decisions) > 0 {
							return randInvs[i].Decisions[0].Beh
						}
						return sc.base
					}
					// fail-file behaviours as they actually were in this run (the explorer varies them too)
					actual := make([]c09File, len(files))
					copy(actual, files)
					for i, f := range actual {
						if f.kind != "pass" && f.kind != "skip" && f.kind != "fail" {
							continue
						}
						for _, kv := range env.Seen {
							if kv.Key == f.key {
								switch {
								case kv.Beh.Falsifies():
									actual[i].kind = "fail"
								case kv.Beh.Skips():
									actual[i].kind = "skip"
								default:
									actual[i].kind = "pass"
								}
							}
						}
					}
					kinds, verdict, valid, invalid := c09Model(sc.n, actual, seq)
					v := log.Verdict()
					replay := map[string]any{"program": prog.Name, "assign": assign, "config": cfg.String(), "files": sc.files}
					viol := func(clause, detail string) {
						c.Violate(Violation{Sig: "C09 " + clause, Detail: fmt.Sprintf("%s\nN=%d files=%v model kinds=%v verdict=%s valid=%d invalid=%d\nTB: class=%s text=%q\ninvocations: %s", detail, sc.n, sc.files, kinds, verdict, valid, invalid, v.Class, trunc(v.ErrText, 200), SummarizeInvs(env.Invs, 40)), Replay: replay, Devs: devs})
					}
					if log.Escaped != nil {
						viol("escaped-panic", fmt.Sprintf("Check let a panic escape: %v", log.Escaped))
						return
					}
					// compare the invocation prefix with the model
					got := make([]string, 0, len(env.Invs))
					for _, inv := range env.Invs {
						got = append(got, invKind(inv))
					}
					out := fmt.Sprintf("%s valid=%d invalid=%d n=%d files=%v", verdict, valid, invalid, sc.n, sc.files)
					c.Outcome(out, devs > 0 || len(sc.files) > 0)
					if len(got) < len(kinds) {
						viol("fewer-invocations-than-model", fmt.Sprintf("property invoked %d times, model says at least %d", len(got), len(kinds)))
						return
					}
					for i := range kinds {
						if got[i] != kinds[i] {
							viol("invocation-kind-differs", fmt.Sprintf("invocation %d was %s, model says %s", i, got[i], kinds[i]))
							return
						}
					}
					switch verdict {
					case "ok":
						if len(got) != len(kinds) {
							viol("extra-invocations-after-pass", fmt.Sprintf("property invoked %d times, model says exactly %d", len(got), len(kinds)))
						}
						if v.Class != "ok" || v.Passed != sc.n || log.TB.IsFail {
							viol("verdict-differs", fmt.Sprintf("model: OK, passed %d; TB: %s passed=%d failed=%v", sc.n, v.Class, v.Passed, log.TB.IsFail))
						}
					case "only-generated":
						if len(got) != len(kinds) {
							viol("extra-invocations-after-budget", fmt.Sprintf("property invoked %d times, model says exactly %d", len(got), len(kinds)))
						}
						if v.Class != "only-generated" || v.Valid != valid || v.Total != valid+invalid || !log.TB.IsFail || !log.TB.Stopped {
							viol("vacuous-pass-or-wrong-count", fmt.Sprintf("model: only generated %d from %d and FailNow; TB: %s valid=%d total=%d failed=%v stopped=%v", valid, valid+invalid, v.Class, v.Valid, v.Total, log.TB.IsFail, log.TB.Stopped))
						}
					case "failed", "failed-file":
						if (v.Class != "failed" && v.Class != "panic") || !log.TB.IsFail || !log.TB.Stopped {
							viol("failure-not-reported-or-test-not-stopped", fmt.Sprintf("model: failed; TB: %s failed=%v stopped(FailNow)=%v", v.Class, log.TB.IsFail, log.TB.Stopped))
						}
						if verdict == "failed" && v.After != valid {
							viol("after-count-differs", fmt.Sprintf("TB says after %d tests, model says %d", v.After, valid))
						}
						if verdict == "failed-file" && v.After != 0 {
							viol("after-count-differs", fmt.Sprintf("fail-file failure reported after %d tests, must be 0", v.After))
						}
						// no fresh random test case after the first falsified one: every later PRNG stream
						// must be seeded with the failing case's seed
						// (checked by C07's seed observer as well; here: all later invocations must be
						// replays or minimization candidates, i.e. come from buffers or the same seed)
					}
				})
			}})
		}
	}
	// several Checks in one process with the flags set once (the way a test binary runs): every one of them
	// does the promised amount of work - nothing a Check does changes what the next one promises
	units = append(units, Unit{Name: "C09/consecutive-checks-in-one-process", Run: func(c *Ctx) {
		for _, short := range []bool{false, true} {
			for _, n := range []int{5, 10, 50} {
				promised := n
				if short {
					promised = n / 5
				}
				var counts []int
				for k := 0; k < 5; k++ {
					prog := uniqueProg(BPass)
					env := NewEnv(nil, prog.Base)
					cfg := Config{Checks: n, Seed: uint64(seed)*7 + uint64(k) + 1, ShrinkMS: 5, NoFailFile: true, Name: "TestC09seq", Short: short, KeepFlags: k > 0}
					if k > 0 {
						flag.Set("rapid.seed", fmt.Sprint(cfg.Seed)) // the seed is not what is being examined
						flag.Set("test.short", fmt.Sprint(short))
					}
					log := RunCheck(prog, env, cfg)
					c.R.Evals++
					c.R.States++
					c.R.Transitions += int64(len(env.Invs))
					counts = append(counts, len(env.Invs))
					if v := log.Verdict(); v.Class != "ok" || v.Passed != promised || len(env.Invs) != promised {
						c.Violate(Violation{Sig: fmt.Sprintf("C09 later-check-does-less-work short=%v", short),
							Detail: fmt.Sprintf("-rapid.checks=%d -short=%v, Check number %d in the process: %d invocations, report %s passed=%d; promised %d (invocation counts so far %v)", n, short, k+1, len(env.Invs), v.Class, v.Passed, promised, counts),
							Replay: map[string]any{"engine": "check-sequence", "checks": n, "short": short, "k": k}})
						break
					}
				}
				c.Outcome(fmt.Sprintf("n=%d short=%v %v", n, short, counts), true)
				flag.Set("test.short", "false")
			}
		}
	}})
	// never vacuous: whatever -short does to the number of cases, a Check that was asked for at least one
	// case and reports OK has run the property at least once
	units = append(units, Unit{Name: "C09/short-with-few-checks-is-not-vacuous", Run: func(c *Ctx) {
		for _, n := range []int{1, 2, 3, 4, 5, 6, 9} {
			for _, base := range []Beh{BPass, BSkip} {
				prog := uniqueProg(base)
				env := NewEnv(nil, prog.Base)
				log := RunCheck(prog, env, Config{Checks: n, Seed: uint64(seed)*11 + uint64(n), ShrinkMS: 5, NoFailFile: true, Name: "TestC09few", Short: true})
				c.R.Evals++
				c.R.States++
				c.R.Transitions += int64(len(env.Invs))
				v := log.Verdict()
				c.Outcome(fmt.Sprintf("n=%d base=%s %s passed=%d invs=%d", n, base, v.Class, v.Passed, len(env.Invs)), true)
				if v.Class == "ok" && (len(env.Invs) == 0 || v.Passed == 0) {
					c.Violate(Violation{Sig: "C09 vacuous-pass-under-short", Detail: fmt.Sprintf("-rapid.checks=%d -short, property that always %s: Check reports OK, passed %d tests after %d invocations of the property", n, base, v.Passed, len(env.Invs)),
						Replay: map[string]any{"engine": "check", "checks": n, "short": true, "base": base.String()}})
				}
			}
		}
	}})
	units = append(units, checkWrapUnit())
	units = append(units, synctestUnit())
	return units
}

func init() {
	Register(&Check{
		ID:    "C09",
		Level: "model_checking",
		Rule: "E2 lazyprop: every behaviour sequence over {pass, skip, fail} of the random test cases (exhaustive for N<=3, deviation-bounded from all-pass and all-skip for N in {5,10,100}), with 0-2 fail files of every kind present; " +
			"each run of the public Check is compared invocation by invocation with a reference model of findBug/checkTB. distinct = distinct (verdict, valid, invalid, N, files); non-trivial = at least one deviation from the base behaviour or a fail file present.",
		Assumptions: []string{"no test deadline (fake TB => 24h), so the early-exit path is not part of the explored environment", "-short off"},
		Units:       c09Units,
		Budget:      map[string]time.Duration{"quick": 50 * time.Second, "thorough": 15 * time.Minute},
	})
}
