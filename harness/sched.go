package harness

// E3: depth-first search over schedules of the cooperative scheduler in rt/vsync, with an
// iterated preemption bound, plus the happens-before race reports of every explored execution.

import (
	"fmt"
	"runtime"
	"runtime/debug"
	"sort"
	"strings"

	"pgregory.net/rapid/verifrt/vsync"
)

type SchedDFS struct {
	Bound    int // preemption bound
	MaxSteps int // scheduling points per execution (livelock horizon)
	MaxExecs int64
	execs    int64
}

func preemptions(ps []vsync.Point, upto int) int {
	n := 0
	for j := 0; j < upto; j++ {
		if ps[j].Chosen != 0 && ps[j].StillEn {
			n++
		}
	}
	return n
}

// Explore runs body under every schedule within the preemption bound. setup runs before each
// execution outside the scheduler. check sees every execution.
func (d *SchedDFS) Explore(c *Ctx, setup func(), body func(), check func(ex *vsync.Exec, choices []int)) {
	stop := false
	old := debug.SetGCPercent(-1)
	defer debug.SetGCPercent(old)
	var rec func(prefix []int)
	rec = func(prefix []int) {
		if stop {
			return
		}
		if d.MaxExecs > 0 && d.execs >= d.MaxExecs {
			c.Cap(fmt.Sprintf("schedule cap %d", d.MaxExecs))
			stop = true
			return
		}
		if d.execs&255 == 0 {
			if c.Expired() {
				c.Cap("time budget")
				stop = true
				return
			}
			runtime.GC()
		}
		d.execs++
		if setup != nil {
			setup()
		}
		ExecBegin(fmt.Sprintf("schedule %v", prefix))
		ex := vsync.Run(prefix, d.MaxSteps, body)
		ExecEnd()
		c.R.Evals++
		c.R.States += int64(len(ex.Points) - len(prefix) + 1)
		c.R.Transitions += int64(len(ex.Points))
		choices := make([]int, len(ex.Points))
		for i, p := range ex.Points {
			choices[i] = p.Chosen
		}
		if ex.Diverged != "" {
			c.Violate(Violation{Sig: "nondeterministic-replay-of-schedule", Detail: ex.Diverged, Replay: map[string]any{"schedule": prefix}})
			return
		}
		check(ex, choices)
		if ex.Deadlock != "" {
			return
		}
		for i := len(prefix); i < len(ex.Points); i++ {
			p := ex.Points[i]
			cost := preemptions(ex.Points, i)
			if p.StillEn {
				cost++
			}
			if cost > d.Bound {
				continue
			}
			for alt := 1; alt < len(p.Enabled); alt++ {
				child := make([]int, i+1)
				copy(child, choices[:i])
				child[i] = alt
				rec(child)
				if stop {
					return
				}
			}
		}
	}
	rec(nil)
}

func racesOf(ex *vsync.Exec) []string {
	var out []string
	for r := range ex.Races {
		out = append(out, r.A+" <-> "+r.B)
	}
	sort.Strings(out)
	return out
}

func scheduleString(ex *vsync.Exec) string {
	var b strings.Builder
	for i, p := range ex.Points {
		if i > 60 {
			fmt.Fprintf(&b, " ...(+%d)", len(ex.Points)-i)
			break
		}
		fmt.Fprintf(&b, "%d:%s ", p.Enabled[p.Chosen], strings.Fields(p.What)[0])
	}
	return b.String()
}
