package harness

// C05 - minimization keeps the same failure and only ever gets smaller.
// E2 with multi-site base programs; deviations are placed on *minimization candidates* too
// (a candidate "fails at another site", "becomes invalid", "passes"); cut points as in C01.

import (
	"fmt"
	"pgregory.net/rapid"
	"time"
)

var c05Alpha = []Beh{BPass, BSkip, BFatalA, BFatalB, BPanicStr, BErrorf, BCleanupPanic, BFailNowC, BFailNowD, BPanicDivA, BPanicDivB, BFatalDeepA, BFatalDeepB}

func finalBuffer(env *Env) ([]uint64, bool) {
	for i := len(env.Bufs) - 1; i >= 0; i-- {
		if !env.BufPersist[i] {
			return env.Bufs[i], true
		}
	}
	return nil, false
}

type c05Facts struct {
	final    []uint64
	chain    [][]uint64 // pruned recordings: original, then of every adopted candidate
	chainRec [][]uint64 // the same runs as recorded (before pruning)
	origOK   bool
}

// c05Oracle checks (a), (b) on one failing run and returns the chain of shrinker states.
func c05Oracle(c *Ctx, prog *LazyProgram, log *RunLog, assign []KV, devs int, what string, wantChain bool) (f c05Facts, ok bool) {
	env := log.Env
	v := log.Verdict()
	replay := map[string]any{"program": prog.Name, "assign": assign, "config": log.Cfg.String(), "what": what}
	viol := func(clause, detail string) {
		c.Violate(Violation{Sig: "C05 " + clause, Detail: fmt.Sprintf("%s\nprogram %s; %s; %s\nTB: %s %q\ninvocations: %s", detail, prog.Name, log.Cfg, what, v.Class, trunc(v.ErrText, 300), SummarizeInvs(env.Invs, 8)), Replay: replay, Devs: devs})
	}
	if log.Escaped != nil {
		viol("escaped-panic", fmt.Sprintf("Check let a panic escape: %v", log.Escaped))
		return f, false
	}
	if v.Class == "flaky" && env.FirstFalsified() != nil {
		// doCheck reproduced the failure (otherwise it would not have minimized), so a "flaky" report
		// means that minimization came back with another error than the one it was given
		viol("minimization-returned-another-failure prog="+prog.Name, "the failure was found and reproduced, yet after minimization Check reports it as flaky: the minimized test case fails differently (or not at all)")
		return f, false
	}
	if v.Class != "failed" && v.Class != "panic" {
		return f, false
	}
	blamed := env.Blamed()
	if blamed == nil {
		return f, false
	}
	last := env.Invs[len(env.Invs)-1]
	if siteID(last) != siteID(blamed) {
		viol(fmt.Sprintf("site-changed prog=%s", prog.Name), fmt.Sprintf("failure originally found: case #%d draws %s site %s; minimized case presented: draws %s site %s", blamed.Idx, blamed.Draws, siteID(blamed), last.Draws, siteID(last)))
	}
	full := append([]KV(nil), env.Seen...)
	seedOfBlamed := env.Seeds[len(env.Seeds)-1].Seed
	orig, oinv := RunBodySeed(prog, full, seedOfBlamed)
	c.R.Evals++
	if oinv.Draws != blamed.Draws {
		viol("harness-reconstruction-differs", fmt.Sprintf("re-running seed %d gave draws %s, the blamed case had %s", seedOfBlamed, oinv.Draws, blamed.Draws))
		return f, false
	}
	fin, okf := finalBuffer(env)
	if !okf {
		viol("no-final-replay", "no buffer replay after the failure")
		return f, false
	}
	f.final = fin
	// "never larger than the original": the original is the recording of the failing run; its pruned form is the first
	// shrinker state. A result above the pruned form is the fallback to a run's own recording (see chainRec below).
	if !shortlexLE(fin, orig.Data) || !shortlexLE(orig.Pruned, orig.Data) {
		viol("result-larger-than-original prog="+prog.Name, fmt.Sprintf("original recording %s (pruned %s), minimized result %s", fmtWords(orig.Data), fmtWords(orig.Pruned), fmtWords(fin)))
	}
	adopted := adoptedChain(env)
	prev := orig.Pruned
	for i, b := range adopted {
		if !shortlexLE(b, prev) || equalWords(b, prev) {
			viol("accepted-step-not-strictly-smaller prog="+prog.Name, fmt.Sprintf("accepted step %d: %s is not strictly smaller (length, then lexicographic) than %s", i, fmtWords(b), fmtWords(prev)))
			break
		}
		prev = b
	}
	c.Count("accepted_steps", int64(len(adopted)))
	if wantChain {
		// a shrinker state is a pruned recording; when the pruned form of the last run does not fail the same way (what
		// pruning removed mattered: a rejected attempt that left traces), shrink() falls back to that run's own recording,
		// so both forms of every state are legitimate results
		f.chain = append(f.chain, orig.Pruned)
		f.chainRec = append(f.chainRec, orig.Data)
		for _, b := range adopted {
			r, _ := RunBody(prog, full, b)
			c.R.Evals++
			f.chain = append(f.chain, r.Pruned)
			f.chainRec = append(f.chainRec, r.Data)
		}
		// the uncut result itself must be the last shrinker state
		if !equalWords(fin, f.chain[len(f.chain)-1]) && !equalWords(fin, f.chainRec[len(f.chainRec)-1]) {
			viol("result-is-not-last-accepted-state prog="+prog.Name, fmt.Sprintf("uncut result %s, last accepted state %s", fmtWords(fin), fmtWords(f.chain[len(f.chain)-1])))
		}
	}
	return f, true
}

func c05Units(tier string, seed int64) []Unit {
	quick := tier != "thorough"
	var units []Unit
	progs := []func() *LazyProgram{
		func() *LazyProgram { return progTwoSites() },
		func() *LazyProgram { return progSameMessage() },
		func() *LazyProgram { return progTwoDeepSites() },
		func() *LazyProgram { return progNonFatalThenFatal() },
		func() *LazyProgram { return progCustomMayDrawNothing() },
		func() *LazyProgram { return progThreshold(100) },
		func() *LazyProgram { return progNonFatal(5) },
		func() *LazyProgram { return progMachine() },
		func() *LazyProgram { return rejectionProgs()[0] },
		func() *LazyProgram { return rejectionProgs()[1] },
		func() *LazyProgram { return rejectionProgs()[2] },
		func() *LazyProgram { return rejectionProgs()[4] },
		func() *LazyProgram { return progRejectedAttemptsDecideTheSite() },
	}
	nseeds := 4
	if !quick {
		nseeds = 24
	}
	for pi, mk := range progs {
		for s := 0; s < nseeds; s++ {
			if quick && (pi == 2 || pi == 12) && s >= 2 {
				continue // the deep-recursion program: every invocation walks 42 frames; two seeds in the quick tier
			}
			pi, mk := pi, mk
			sd := uint64(seed)*6151 + uint64(s)*15485863 + 7
			units = append(units, Unit{Name: fmt.Sprintf("C05/prog=%d/seed=%d", pi, sd), Run: func(c *Ctx) {
				prog := mk()
				cfg := Config{Checks: 20, Seed: sd, ShrinkMS: -1, NoFailFile: true, Steps: 6, Name: "TestC05"}
				d := &LazyDFS{Prog: prog, Cfg: cfg, Alphabet: func(string) []Beh { return c05Alpha }, P: 28, MaxDev: 1}
				if !quick {
					d.P, d.MaxDev, d.MaxRuns = 96, 2, 40000
				} else if pi == 2 {
					d.P = 10 // every invocation of the deep-recursion program formats a 45-frame traceback
				}
				c.R.Bounds = fmt.Sprintf("deviations<=%d on the first %d inputs incl. minimization candidates; all cut points (quick: Fibonacci)", d.MaxDev, d.P)
				d.Explore(c, func(log *RunLog, assign []KV, devs int) {
					env := log.Env
					v := log.Verdict()
					c.Outcome(fmt.Sprintf("%s site=%s steps=%d", v.Class, siteID(env.FirstFalsified()), len(adoptedChain(env))), len(adoptedChain(env)) > 0)
					if len(env.Invs) > 1000000 {
						c.Violate(Violation{Sig: "C05 minimization-budget-exceeded prog=" + prog.Name, Detail: "more than 10^6 invocations without a time limit", Replay: map[string]any{"program": prog.Name, "assign": assign}, Devs: devs})
					}
					facts, ok := c05Oracle(c, prog, log, assign, devs, "uncut", true)
					if !ok {
						return
					}
					blamed := env.Blamed()
					shrinkInvs := len(env.Invs) - (blamed.Idx + 2)
					full := append([]KV(nil), env.Seen...)
					for _, j := range cutPoints(shrinkInvs, quick || devs > 0) {
						if c.Expired() {
							c.Cap("time budget")
							return
						}
						cfgj := cfg
						cfgj.ShrinkMS = j
						envj := NewEnv(full, prog.Base)
						logj := RunCheck(prog, envj, cfgj)
						c.R.Evals++
						c.R.Transitions += int64(len(envj.Invs))
						c.Count("cut_runs", 1)
						what := fmt.Sprintf("minimization cut after %d invocations", j)
						fj, okj := c05Oracle(c, prog, logj, assign, devs, what, false)
						if !okj {
							c.Violate(Violation{Sig: "C05 cut-run-lost-the-failure prog=" + prog.Name, Detail: fmt.Sprintf("%s: the run did not report the failure (%s)", what, logj.Verdict().Class),
								Replay: map[string]any{"program": prog.Name, "assign": assign, "config": cfgj.String()}, Devs: devs})
							continue
						}
						in := false
						for _, st := range append(append([][]uint64{}, facts.chain...), facts.chainRec...) {
							if equalWords(st, fj.final) {
								in = true
								break
							}
						}
						if !in {
							c.Violate(Violation{Sig: "C05 cut-result-not-a-state-of-the-uncut-run prog=" + prog.Name,
								Detail: fmt.Sprintf("%s: result %s is none of the %d states the uncut minimization went through (first %s, last %s)", what, fmtWords(fj.final), len(facts.chain), fmtWords(facts.chain[0]), fmtWords(facts.chain[len(facts.chain)-1])),
								Replay: map[string]any{"program": prog.Name, "assign": assign, "config": cfgj.String()}, Devs: devs})
						}
					}
				})
			}})
		}
	}
	// E1 -> R1: explorer-found failing streams of the rejection-based consumers as the first test case
	for _, pi := range []int{0, 1, 2, 4} {
		pi := pi
		units = append(units, Unit{Name: fmt.Sprintf("C05/e1-first-case/rejection-prog=%d", pi), Run: func(c *Ctx) {
			prog := rejectionProgs()[pi]
			max := 40
			if !quick {
				max = 1000
			}
			streams := failingStreams(c, prog, 18, 3, max)
			c.Count("explorer_found_failing_first_cases", int64(len(streams)))
			sd := uint64(seed)*31 + 4242
			for si, words := range streams {
				if c.Expired() {
					c.Cap("time budget")
					return
				}
				WithFirstCase(sd, words, func() {
					cfg := Config{Checks: 2, Seed: sd, ShrinkMS: -1, NoFailFile: true, Name: "TestC05"}
					env := NewEnv(nil, prog.Base)
					log := RunCheck(prog, env, cfg)
					c.R.Evals++
					c.R.Transitions += int64(len(env.Invs))
					c.Outcome(fmt.Sprintf("stream#%d %s steps=%d", si, log.Verdict().Class, len(adoptedChain(env))), len(adoptedChain(env)) > 0)
					what := fmt.Sprintf("explorer-found first case %s", fmtWords(words))
					facts, ok := c05Oracle(c, prog, log, nil, 0, what+", uncut", true)
					if !ok {
						return
					}
					blamed := env.Blamed()
					shrinkInvs := len(env.Invs) - (blamed.Idx + 2)
					for _, j := range cutPoints(shrinkInvs, quick) {
						cfgj := cfg
						cfgj.ShrinkMS = j
						envj := NewEnv(nil, prog.Base)
						logj := RunCheck(prog, envj, cfgj)
						c.R.Evals++
						c.Count("cut_runs", 1)
						fj, okj := c05Oracle(c, prog, logj, nil, 0, fmt.Sprintf("%s, minimization cut after %d invocations", what, j), false)
						if !okj {
							c.Violate(Violation{Sig: "C05 cut-run-lost-the-failure prog=" + prog.Name, Detail: fmt.Sprintf("%s cut after %d: the run did not report the failure (%s)", what, j, logj.Verdict().Class),
								Replay: map[string]any{"program": prog.Name, "words": words, "config": cfgj.String()}})
							continue
						}
						in := false
						for _, st := range append(append([][]uint64{}, facts.chain...), facts.chainRec...) {
							if equalWords(st, fj.final) {
								in = true
								break
							}
						}
						if !in {
							c.Violate(Violation{Sig: "C05 cut-result-not-a-state-of-the-uncut-run prog=" + prog.Name,
								Detail: fmt.Sprintf("%s cut after %d: result %s is none of the %d states of the uncut minimization", what, j, fmtWords(fj.final), len(facts.chain)),
								Replay: map[string]any{"program": prog.Name, "words": words, "config": cfgj.String()}})
						}
					}
				})
			}
		}})
	}
	// the shrinker itself, started from every failing stream that E1 and the PRNG find, for generators whose
	// rejected attempts are removed from the recording while minimization is under way (so that an accepted
	// step can make the recording much shorter): it terminates without a time limit, does not crash, and
	// returns a recording that is no larger and fails at the same place
	for _, sp := range c05ShrinkProgs() {
		sp := sp
		units = append(units, Unit{Name: "C05/shrinker-survives/" + sp.name, Run: func(c *Ctx) {
			tb := NewTB("C05")
			tb.Quiet = true
			try := func(start []uint64, how string, devs int) {
				var first, res rapid.VerifResult
				var out []uint64
				ExecBegin("shrink " + sp.name + " from " + how)
				esc := Guard(func() { first, out, res = rapid.VerifShrink(tb, start, time.Hour, sp.prop) })
				ExecEnd()
				c.R.Evals++
				replay := map[string]any{"engine": "shrink", "program": sp.name, "start_words": start, "how": how}
				if esc != nil {
					c.Violate(Violation{Sig: "C05 minimization-crashes prog=" + sp.name, Detail: fmt.Sprintf("minimizing the failing case %s (%s) ended in a panic that escaped: %v", fmtWords(start), how, esc), Replay: replay, Devs: devs})
					return
				}
				if first.Kind != rapid.VerifFail && first.Kind != rapid.VerifPanic {
					return
				}
				c.R.States++
				c.Outcome(fmt.Sprintf("%s -> %s", fmtWords(first.Pruned), fmtWords(out)), len(out) < len(first.Data))
				if res.Kind != first.Kind || res.Traceback != first.Traceback {
					c.Violate(Violation{Sig: "C05 minimization-returned-another-failure prog=" + sp.name, Detail: fmt.Sprintf("start %s: %s %q; result %s: %s %q", fmtWords(start), kindName(first.Kind), first.Msg, fmtWords(out), kindName(res.Kind), res.Msg), Replay: replay, Devs: devs})
				}
				if !shortlexLE(out, first.Data) {
					c.Violate(Violation{Sig: "C05 minimized-larger-than-original prog=" + sp.name, Detail: fmt.Sprintf("start %s, result %s", fmtWords(first.Data), fmtWords(out)), Replay: replay, Devs: devs})
				}
			}
			for _, base := range []func(int) uint64{BaseZero, BaseOnes, BaseMid} {
				e := &BitDFS{Base: base, Depth: 8, MaxDev: 2, PRNGFaithful: true, Alpha: LevelAlpha(AlphaAll(2, AlphaFull(128)), AlphaAll(2, AlphaEdge), AlphaAll(1, AlphaCoin)), MaxExecs: 60000}
				if !quick {
					e.Depth, e.MaxDev, e.MaxExecs = 12, 3, 300000
				}
				e.Explore(c, func(src *Source, devs int) {
					res := rapid.VerifRunSource(tb, src, false, sp.prop)
					c.R.Transitions++
					if res.Kind == rapid.VerifFail || res.Kind == rapid.VerifPanic {
						try(res.Data, "explorer-found failing stream", devs)
					}
				})
			}
			ns := 400
			if !quick {
				ns = 20000
			}
			for k := 0; k < ns; k++ {
				if k&63 == 0 && c.Expired() {
					c.Cap("time budget")
					return
				}
				sd := uint64(seed)*7919 + uint64(k) + 1
				res := rapid.VerifRunSeed(tb, sd, false, sp.prop)
				c.R.Transitions++
				if res.Kind == rapid.VerifFail || res.Kind == rapid.VerifPanic {
					try(res.Data, fmt.Sprintf("PRNG seed %d", sd), 9)
				}
			}
		}})
	}
	return units
}

func init() {
	Register(&Check{
		ID:    "C05",
		Level: "model_checking",
		Rule: "E2 lazyprop over 8 multi-site / rejection-based base programs x seeds x one (quick) or two (thorough) behaviour deviations on the first P inputs *including minimization candidates* (a candidate fails elsewhere, is invalid, passes) " +
			"x all cut points of the shrink phase. Oracle: site of the presented case = site of the failure found; accepted candidate buffers (r5 observer) strictly decreasing in length-then-lexicographic order and below the pruned original; " +
			"every cut result is a state of the uncut run. distinct = distinct (class, site, #accepted steps); non-trivial = at least one minimization step was accepted.",
		Assumptions: []string{"site = (callback context, failure kind) of the effective fatal signal; all non-fatal-only failures are one site, as the statement defines"},
		Units:       c05Units,
		Budget:      map[string]time.Duration{"quick": 90 * time.Second, "thorough": 25 * time.Minute},
	})
}

type c05ShrinkProg struct {
	name string
	prop func(t *rapid.T)
}

// c05ShrinkProgs: properties over generators that reject attempts, with failure regions chosen so that a
// smaller candidate often fails through another path of the generator (a retry that consumes fewer words).
func c05ShrinkProgs() []c05ShrinkProg {
	varlen := rapid.Custom(func(t *rapid.T) int {
		if !rapid.Bool().Draw(t, "b") {
			return int(rapid.Uint8().Draw(t, "v"))
		}
		return -1
	}).Filter(func(v int) bool { return v != 32 && v != 3 })
	distinct := rapid.SliceOfNDistinct(rapid.IntRange(0, 5), 0, 4, rapid.ID[int])
	innerInt := rapid.Custom(func(t *rapid.T) int { return rapid.IntRange(0, 100).Draw(t, "i") })
	outerInt := rapid.Custom(func(t *rapid.T) int {
		v := innerInt.Draw(t, "v")
		w := innerInt.Draw(t, "w")
		x := innerInt.Draw(t, "x")
		if v+w > 10 && x != 3 {
			t.Fatalf("too big")
		}
		return v
	})
	recSlice := rapid.SliceOfDistinct(rapid.Custom(func(t *rapid.T) c05Rec {
		var r c05Rec
		for i := range r.flags {
			r.flags[i] = rapid.Bool().Draw(t, "flag")
		}
		r.id = rapid.Int().Draw(t, "id")
		return r
	}), func(r c05Rec) int { return r.id })
	evenStruct := rapid.Custom(func(t *rapid.T) c05Struct {
		return c05Struct{A: rapid.SliceOf(rapid.Byte()).Draw(t, "A"), X: rapid.Int64().Draw(t, "X"), S: rapid.String().Draw(t, "S")}
	}).Filter(func(v c05Struct) bool { return len(v.A)%2 == 0 })
	var deepTree *rapid.Generator[int]
	deepTree = rapid.Deferred(func() *rapid.Generator[int] {
		return rapid.Custom(func(t *rapid.T) int {
			v := rapid.IntRange(0, 9).Draw(t, "v")
			if rapid.Bool().Draw(t, "more") {
				l := deepTree.Draw(t, "l")
				r := deepTree.Draw(t, "r")
				if l+r+v >= 12 {
					t.Fatalf("sum too big inside the generator")
				}
				return l + r + v
			}
			return v
		})
	})
	return []c05ShrinkProg{
		{"filtered variable-length Custom, failing through two paths", func(t *rapid.T) {
			xb := rapid.Bool().Draw(t, "xb")
			v := varlen.Draw(t, "v")
			if v >= 0 {
				rapid.Bool().Draw(t, "w")
			}
			if (v >= 10 && v < 100) || (v == -1 && !xb) {
				t.Fatalf("boom")
			}
		}},
		{"two filtered variable-length draws", func(t *rapid.T) {
			a := varlen.Draw(t, "a")
			b := varlen.Draw(t, "b")
			if a+b >= 40 || (a == -1 && b >= 0) {
				t.Fatalf("boom")
			}
		}},
		{"SliceOfNDistinct then a tail, failing on sum or on an empty slice with a big tail", func(t *rapid.T) {
			s := distinct.Draw(t, "s")
			tail := rapid.Uint16().Draw(t, "tail")
			sum := 0
			for _, x := range s {
				sum += x
			}
			if sum >= 9 || (len(s) == 0 && tail >= 300) || (len(s) == 1 && tail == 7) {
				t.Fatalf("boom")
			}
		}},
		{"failure raised inside a Custom function that draws from generators printed like itself", func(t *rapid.T) {
			// the outer group is still open when the failure is raised; the inner groups carry the same label
			outerInt.Draw(t, "o")
		}},
		{"failure raised inside a recursive Deferred generator", func(t *rapid.T) {
			if n := deepTree.Draw(t, "tree"); n > 200 {
				t.Fatalf("unreachable")
			}
		}},
		{"SliceOfDistinct of Custom records keyed by id, then a key", func(t *rapid.T) {
			recs := recSlice.Draw(t, "recs")
			key := rapid.Int().Draw(t, "key")
			if (len(recs) >= 2 && key <= recs[0].id && recs[1].id >= 1000003) || (len(recs) == 1 && key == 1000003) {
				t.Fatalf("bad: %d records", len(recs))
			}
		}},
		{"filtered Custom struct {[]byte, int64, string}, failing on the int", func(t *rapid.T) {
			if v := evenStruct.Draw(t, "v"); v.X >= 1000 {
				t.Fatalf("X too large: %d", v.X)
			}
		}},
		{"map with colliding keys, failing on size or on one entry", func(t *rapid.T) {
			m := rapid.MapOfN(rapid.IntRange(0, 3), rapid.Uint8(), 0, 3).Draw(t, "m")
			last := rapid.Bool().Draw(t, "last")
			if len(m) == 3 || (len(m) == 1 && m[0] >= 16 && last) || (len(m) == 0 && last) {
				t.Fatalf("boom")
			}
		}},
	}
}

type c05Rec struct {
	flags [4]bool
	id    int
}

type c05Struct struct {
	A []byte
	X int64
	S string
}
