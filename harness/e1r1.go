package harness

// E1 -> R1 bridge: failing bitstreams found by the E1 explorer for a program are installed as the
// *first test case* of a real Check (rule r1: the PRNG words of the stream seeded with the base seed
// are replaced), so that forced stops, retries and over-long runes reach the whole pipeline
// (reproduce, minimize with cut points, capture, persist, final replay) systematically instead of
// by the luck of a seed.

import (
	"fmt"

	"pgregory.net/rapid"
)

// failingStreams explores prog's property function with E1 and returns the recorded words of
// executions that falsify it (base behaviours only), at most max of them, deterministically.
func failingStreams(c *Ctx, prog *LazyProgram, depth, maxDev int, max int) [][]uint64 {
	var out [][]uint64
	seen := map[string]bool{}
	tb := NewTB("e1r1")
	tb.Quiet = true
	for _, base := range []func(int) uint64{BaseOnes, BaseZero, BaseMid} {
		e := &BitDFS{Base: base, Depth: depth, MaxDev: maxDev, PRNGFaithful: true, MaxExecs: 40000}
		e.Alpha = LevelAlpha(AlphaAll(3, AlphaEdge), AlphaAll(2, AlphaCoin), AlphaAll(1, AlphaCoin))
		e.Explore(c, func(src *Source, devs int) {
			if len(out) >= max {
				return
			}
			env := NewEnv(nil, prog.Base)
			res := rapid.VerifRunSource(tb, src, false, func(t *rapid.T) {
				inv := env.Begin()
				prog.Body(t, env)
				inv.Returned = true
			})
			if res.Kind != rapid.VerifFail && res.Kind != rapid.VerifPanic {
				return
			}
			// the PRNG stream does not consume a word for a draw wider than 64 bits (it records all ones
			// without calling the generator): such positions are not part of the installed word sequence
			var words []uint64
			for i, w := range res.Data {
				if i < len(src.Trace) && src.Trace[i].N > 64 {
					continue
				}
				words = append(words, w)
			}
			k := fmt.Sprint(words)
			if !seen[k] {
				seen[k] = true
				out = append(out, words)
			}
		})
	}
	return out
}

// WithFirstCase installs words as the bitstream of every PRNG stream seeded with seed while f runs.
func WithFirstCase(seed uint64, words []uint64, f func()) {
	rapid.VerifSetWordEnv(func(sd uint64, idx int, n int, real uint64) uint64 {
		if sd == seed && idx < len(words) {
			return words[idx]
		}
		return real
	})
	defer rapid.VerifSetWordEnv(nil)
	f()
}

// RunCheckWithFirstCase runs Check with the given words as the bitstream of the first test case.
func RunCheckWithFirstCase(p *LazyProgram, env *Env, cfg Config, words []uint64) *RunLog {
	first := cfg.Seed
	rapid.VerifSetWordEnv(func(seed uint64, idx int, n int, real uint64) uint64 {
		if seed == first && idx < len(words) {
			return words[idx]
		}
		return real
	})
	defer rapid.VerifSetWordEnv(nil)
	return RunCheck(p, env, cfg)
}
