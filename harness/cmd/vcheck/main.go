// vcheck: bounded exhaustive exploration of pgregory.net/rapid (see /verif/DESIGN.md).
//
//	vcheck run <ID> [--tier quick|thorough] [--seed N] [--instr info]
//	vcheck worker <ID> --tier T --seed N --deadline UNIX
//	vcheck replay <file>
//	vcheck list
package main

import (
	"flag"
	"fmt"
	"os"
	"strconv"
	"testing"

	"verif/harness"
)

func main() {
	testing.Init()
	flag.CommandLine.Parse(nil)
	flag.Set("rapid.nofailfile", "true")
	args := os.Args[1:]
	if len(args) == 1 && args[0] == "freshseeds" {
		harness.FreshSeedsMain()
		return
	}
	if len(args) == 2 && args[0] == "crashchild" {
		harness.CrashChildMain(args[1])
		return
	}
	if len(args) == 3 && args[0] == "freerun" {
		n, _ := strconv.Atoi(args[2])
		harness.FreeRunMain(args[1], n)
		return
	}
	if len(args) == 3 && args[0] == "seedrun" {
		harness.SeedRunMain(args[1], args[2])
		return
	}
	if len(args) == 3 && args[0] == "fuzzdeepprobe" {
		harness.FuzzDeepProbeMain(args[1], args[2])
		return
	}
	if len(args) == 1 && args[0] == "panicnilprobe" {
		harness.PanicNilProbeMain()
		return
	}
	if len(args) == 2 && args[0] == "constructprobe" {
		harness.ConstructProbeMain(args[1])
		return
	}
	if len(args) == 3 && args[0] == "histdigest" {
		harness.HistDigestMain(args[1], args[2])
		return
	}
	if len(args) == 0 {
		fmt.Println("usage: vcheck run|worker|replay|list ...")
		os.Exit(2)
	}
	opt := map[string]string{"tier": "quick", "seed": "0", "deadline": "0", "instr": "", "index": "0"}
	var pos []string
	for i := 1; i < len(args); i++ {
		if len(args[i]) > 2 && args[i][:2] == "--" && i+1 < len(args) {
			opt[args[i][2:]] = args[i+1]
			i++
		} else {
			pos = append(pos, args[i])
		}
	}
	if t := os.Getenv("VERIF_TIER"); t != "" && opt["tier"] == "" {
		opt["tier"] = t
	}
	seed, _ := strconv.ParseInt(opt["seed"], 10, 64)
	switch args[0] {
	case "list":
		for _, id := range harness.IDs() {
			fmt.Println(id)
		}
	case "run":
		if len(pos) != 1 {
			fmt.Println("usage: vcheck run <ID>")
			os.Exit(2)
		}
		self, _ := os.Executable()
		os.Exit(harness.ParentMain(pos[0], opt["tier"], seed, self, opt["instr"]))
	case "unit-json":
		dl, _ := strconv.ParseInt(opt["deadline"], 10, 64)
		ix, _ := strconv.Atoi(opt["index"])
		harness.UnitJSONMain(pos[0], opt["tier"], seed, ix, dl)
	case "worker":
		dl, _ := strconv.ParseInt(opt["deadline"], 10, 64)
		harness.WorkerMain(pos[0], opt["tier"], seed, dl)
	case "freshseeds":
		harness.FreshSeedsMain()
	case "unit": // debugging aid: vcheck unit <ID> <unit name substring>
		harness.DebugUnit(pos[0], pos[1], opt["tier"], seed)
	case "replay":
		os.Exit(harness.ReplayMain(pos[0]))
	default:
		fmt.Println("unknown command", args[0])
		os.Exit(2)
	}
}
