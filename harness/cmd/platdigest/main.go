// platdigest prints, for a fixed list of generator expressions whose value types do not depend on the
// platform's word size, what they draw from fixed seeds and fixed buffers. checks/run.sh builds it for
// the host and for GOARCH=386; unit "C04/cross-platform" compares the two outputs line by line:
// the values a test case draws depend only on its bitstream.
package main

import (
	"fmt"

	"pgregory.net/rapid"
)

type tb struct{}

func (tb) Helper()               {}
func (tb) Name() string          { return "platdigest" }
func (tb) Logf(string, ...any)   {}
func (tb) Log(...any)            {}
func (tb) Skipf(string, ...any)  { panic("skip") }
func (tb) Skip(...any)           { panic("skip") }
func (tb) SkipNow()              { panic("skip") }
func (tb) Errorf(string, ...any) {}
func (tb) Error(...any)          {}
func (tb) Fatalf(string, ...any) { panic("fatal") }
func (tb) Fatal(...any)          { panic("fatal") }
func (tb) FailNow()              { panic("fatal") }
func (tb) Fail()                 {}
func (tb) Failed() bool          { return false }

type prog struct {
	name string
	draw func(t *rapid.T) string
}

func progs() []prog {
	perm := func(n int) []string {
		var s []string
		for i := 0; i < n; i++ {
			s = append(s, fmt.Sprint("e", i))
		}
		return s
	}
	return []prog{
		{"Permutation(3 strings)", func(t *rapid.T) string { return fmt.Sprint(rapid.Permutation(perm(3)).Draw(t, "p")) }},
		{"Permutation(6 strings)", func(t *rapid.T) string { return fmt.Sprint(rapid.Permutation(perm(6)).Draw(t, "p")) }},
		{"Permutation([]int64 x8)", func(t *rapid.T) string {
			return fmt.Sprint(rapid.Permutation([]int64{1, 2, 3, 4, 5, 6, 7, 8}).Draw(t, "p"))
		}},
		{"Int64()", func(t *rapid.T) string { return fmt.Sprint(rapid.Int64().Draw(t, "v")) }},
		{"Uint64()", func(t *rapid.T) string { return fmt.Sprint(rapid.Uint64().Draw(t, "v")) }},
		{"Int32Range(-5,1<<30)", func(t *rapid.T) string { return fmt.Sprint(rapid.Int32Range(-5, 1<<30).Draw(t, "v")) }},
		{"Float64()", func(t *rapid.T) string { return fmt.Sprintf("%x", rapid.Float64().Draw(t, "v")) }},
		{"Float32Range(-1,1)", func(t *rapid.T) string { return fmt.Sprintf("%x", rapid.Float32Range(-1, 1).Draw(t, "v")) }},
		{"SliceOf(Int8())", func(t *rapid.T) string { return fmt.Sprint(rapid.SliceOf(rapid.Int8()).Draw(t, "v")) }},
		{"SliceOfNDistinct(Uint8(),2,6)", func(t *rapid.T) string {
			return fmt.Sprint(rapid.SliceOfNDistinct(rapid.Uint8(), 2, 6, rapid.ID[uint8]).Draw(t, "v"))
		}},
		{"MapOf(Bool(),Int16())", func(t *rapid.T) string { return fmt.Sprint(rapid.MapOf(rapid.Bool(), rapid.Int16()).Draw(t, "v")) }},
		{"String()", func(t *rapid.T) string { return fmt.Sprintf("%q", rapid.String().Draw(t, "v")) }},
		{"StringN(2,5,12)", func(t *rapid.T) string { return fmt.Sprintf("%q", rapid.StringN(2, 5, 12).Draw(t, "v")) }},
		{"StringMatching([a-c]{2,4}x?)", func(t *rapid.T) string { return rapid.StringMatching(`[a-c]{2,4}x?`).Draw(t, "v") }},
		{"SampledFrom(7 strings)", func(t *rapid.T) string { return rapid.SampledFrom(perm(7)).Draw(t, "v") }},
		{"OneOf(Just(1),Int64Range)", func(t *rapid.T) string {
			return fmt.Sprint(rapid.OneOf(rapid.Just(int64(1)), rapid.Int64Range(10, 20)).Draw(t, "v"))
		}},
		{"Int64().Filter(even)", func(t *rapid.T) string {
			return fmt.Sprint(rapid.Int64().Filter(func(v int64) bool { return v%2 == 0 }).Draw(t, "v"))
		}},
		{"Make[struct{A int8;B []uint16;C *bool}]", func(t *rapid.T) string {
			v := rapid.Make[struct {
				A int8
				B []uint16
				C *bool
			}]().Draw(t, "v")
			c := "nil"
			if v.C != nil {
				c = fmt.Sprint(*v.C)
			}
			return fmt.Sprint(v.A, v.B, c)
		}},
		{"Repeat(inc,skip)", func(t *rapid.T) string {
			n, tr := int64(0), ""
			t.Repeat(map[string]func(*rapid.T){
				"inc": func(t *rapid.T) { n += int64(rapid.Int8().Draw(t, "d")); tr += "i" },
				"skip": func(t *rapid.T) {
					if rapid.Bool().Draw(t, "s") {
						t.Skip("s")
					}
					tr += "k"
				},
			})
			return fmt.Sprint(n, tr)
		}},
	}
}

func main() {
	var t tb
	bufs := [][]uint64{make([]uint64, 64), nil, nil}
	for i := 0; i < 64; i++ {
		bufs[1] = append(bufs[1], ^uint64(0))
		bufs[2] = append(bufs[2], uint64(i)*0x9e3779b97f4a7c15>>uint(i%50))
	}
	for _, p := range progs() {
		for sd := uint64(1); sd <= 40; sd++ {
			var out string
			res := rapid.VerifRunSeed(t, sd*0x51ed27, false, func(t *rapid.T) { out = p.draw(t) })
			fmt.Printf("%s\tseed%d\t%d\t%d\t%s\n", p.name, sd, res.Kind, len(res.Data), out)
		}
		for bi, b := range bufs {
			var out string
			res := rapid.VerifRunBuf(t, b, false, func(t *rapid.T) { out = p.draw(t) })
			fmt.Printf("%s\tbuf%d\t%d\t%d\t%s\n", p.name, bi, res.Kind, len(res.Data), out)
		}
	}
}
