package harness

// Depth-2 (and a few depth-3) nestings generated compositionally: every int-valued element generator
// under every container/combinator, with the contract derived from the element's contract.

import (
	"fmt"

	"pgregory.net/rapid"
)

type intElem struct {
	name string
	mk   func() *rapid.Generator[int]
	ok   func(int) bool
}

func intElems() []intElem {
	return []intElem{
		{"IntRange(0,2)", func() *rapid.Generator[int] { return rapid.IntRange(0, 2) }, func(v int) bool { return v >= 0 && v <= 2 }},
		{"Int8->int", func() *rapid.Generator[int] { return rapid.Map(rapid.Int8(), func(i int8) int { return int(i) }) }, func(v int) bool { return v >= -128 && v <= 127 }},
		{"Just(5)", func() *rapid.Generator[int] { return rapid.Just(5) }, func(v int) bool { return v == 5 }},
		{"IntRange(-1,1).Filter(nonzero)", func() *rapid.Generator[int] { return rapid.IntRange(-1, 1).Filter(func(i int) bool { return i != 0 }) }, func(v int) bool { return v == -1 || v == 1 }},
		{"Map(IntRange(0,3),double)", func() *rapid.Generator[int] { return rapid.Map(rapid.IntRange(0, 3), func(i int) int { return 2 * i }) }, func(v int) bool { return v >= 0 && v <= 6 && v%2 == 0 }},
		{"SampledFrom(3,4)", func() *rapid.Generator[int] { return rapid.SampledFrom([]int{3, 4}) }, func(v int) bool { return v == 3 || v == 4 }},
		{"Custom(a+b)", func() *rapid.Generator[int] {
			return rapid.Custom(func(t *rapid.T) int {
				return rapid.IntRange(0, 1).Draw(t, "a") + rapid.IntRange(10, 11).Draw(t, "b")
			})
		}, func(v int) bool { return v >= 10 && v <= 12 }},
		{"Deferred(IntRange(0,1))", func() *rapid.Generator[int] {
			return rapid.Deferred(func() *rapid.Generator[int] { return rapid.IntRange(0, 1) })
		}, func(v int) bool { return v == 0 || v == 1 }},
		{"OneOf(Just(0),Just(9))", func() *rapid.Generator[int] { return rapid.OneOf(rapid.Just(0), rapid.Just(9)) }, func(v int) bool { return v == 0 || v == 9 }},
		{"Int64Range(min,min+1)->int", func() *rapid.Generator[int] {
			return rapid.Map(rapid.Int64Range(-9223372036854775808, -9223372036854775807), func(i int64) int { return int(i) })
		}, func(v int) bool { return v == -9223372036854775808 || v == -9223372036854775807 }},
	}
}

func allOK(vs []int, ok func(int) bool) string {
	for _, v := range vs {
		if !ok(v) {
			return fmt.Sprintf("element %d violates the element generator's contract", v)
		}
	}
	return ""
}

func NestedProgs() []Prog {
	var ps []Prog
	id := rapid.ID[int]
	for _, e := range intElems() {
		e := e
		n := func(container string) string { return fmt.Sprintf("%s of %s", container, e.name) }
		ps = append(ps,
			one(n("SliceOfN(.,0,2)"), "nest coll rej", func() *rapid.Generator[[]int] { return rapid.SliceOfN(e.mk(), 0, 2) },
				func(s []int) string { return first(lenIn(len(s), 0, 2), allOK(s, e.ok)) }),
			one(n("SliceOfN(.,2,2)"), "nest coll rej", func() *rapid.Generator[[]int] { return rapid.SliceOfN(e.mk(), 2, 2) },
				func(s []int) string { return first(lenIn(len(s), 2, 2), allOK(s, e.ok)) }),
			one(n("SliceOfNDistinct(.,0,2)"), "nest coll rej", func() *rapid.Generator[[]int] { return rapid.SliceOfNDistinct(e.mk(), 0, 2, id) },
				func(s []int) string { return first(lenIn(len(s), 0, 2), allOK(s, e.ok), distinctInts(s)) }),
			one(n("MapOfN(.,Bool(),0,2)"), "nest coll rej", func() *rapid.Generator[map[int]bool] { return rapid.MapOfN(e.mk(), rapid.Bool(), 0, 2) },
				func(m map[int]bool) string {
					var ks []int
					for k := range m {
						ks = append(ks, k)
					}
					return first(lenIn(len(m), 0, 2), allOK(ks, e.ok))
				}),
			one(n("MapOfNValues(.,1,2,id)"), "nest coll rej", func() *rapid.Generator[map[int]int] { return rapid.MapOfNValues(e.mk(), 1, 2, id) },
				func(m map[int]int) string {
					var vs []int
					for k, v := range m {
						if k != v {
							return "key is not keyFn(value)"
						}
						vs = append(vs, v)
					}
					return first(lenIn(len(m), 1, 2), allOK(vs, e.ok))
				}),
			one(n("Ptr(.,false)"), "nest comb", func() *rapid.Generator[*int] { return rapid.Ptr(e.mk(), false) },
				func(p *int) string {
					if p == nil {
						return "nil although allowNil=false"
					}
					return allOK([]int{*p}, e.ok)
				}),
			one(n("OneOf(.,Just(-100))"), "nest comb rej", func() *rapid.Generator[int] { return rapid.OneOf(e.mk(), rapid.Just(-100)) },
				func(v int) string {
					if v == -100 {
						return ""
					}
					return allOK([]int{v}, e.ok)
				}),
			one(n("Filter(.,even)"), "nest comb rej", func() *rapid.Generator[int] { return e.mk().Filter(func(i int) bool { return i%2 == 0 }) },
				func(v int) string {
					if v%2 != 0 {
						return "filter predicate false"
					}
					return allOK([]int{v}, e.ok)
				}),
			one(n("Map(.,negate)"), "nest comb", func() *rapid.Generator[int] { return rapid.Map(e.mk(), func(i int) int { return -i }) },
				func(v int) string { return allOK([]int{-v}, e.ok) }),
			one(n("Custom(two draws)"), "nest comb", func() *rapid.Generator[[2]int] {
				g := e.mk()
				return rapid.Custom(func(t *rapid.T) [2]int { return [2]int{g.Draw(t, "a"), g.Draw(t, "b")} })
			}, func(v [2]int) string { return allOK(v[:], e.ok) }),
			one(n("Deferred(.)"), "nest comb", func() *rapid.Generator[int] {
				return rapid.Deferred(func() *rapid.Generator[int] { return e.mk() })
			}, func(v int) string { return allOK([]int{v}, e.ok) }),
			one(n("SliceOfN(SliceOfNDistinct(.,1,2),1,2)"), "nest coll rej", func() *rapid.Generator[[][]int] {
				return rapid.SliceOfN(rapid.SliceOfNDistinct(e.mk(), 1, 2, id), 1, 2)
			}, func(v [][]int) string {
				for _, s := range v {
					if m := first(lenIn(len(s), 1, 2), allOK(s, e.ok), distinctInts(s)); m != "" {
						return m
					}
				}
				return lenIn(len(v), 1, 2)
			}),
			one(n("AsAny"), "nest comb", func() *rapid.Generator[any] { return e.mk().AsAny() },
				func(v any) string {
					i, ok := v.(int)
					if !ok {
						return fmt.Sprintf("dynamic type %T, want int", v)
					}
					return allOK([]int{i}, e.ok)
				}),
		)
	}
	return ps
}
