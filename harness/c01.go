package harness

// C01 - a reported failure is real.
// E2 over the base-program catalogue x behaviour deviations x configurations
// (checks, nofailfile) x cut points of minimization (shrinktime = 0, unlimited, and
// "expires after the j-th invocation of the shrink phase" for every j) x base seeds.

import (
	"fmt"
	"strings"
	"time"

	"pgregory.net/rapid"
)

func c01Progs() []func() *LazyProgram {
	ps := []func() *LazyProgram{
		func() *LazyProgram { return progThreshold(100) },
		func() *LazyProgram { return progTwoSites() },
		func() *LazyProgram { return progSameMessage() },
		func() *LazyProgram { return progNonFatalThenFatal() },
		func() *LazyProgram { return progCustomMayDrawNothing() },
		func() *LazyProgram { return progUniqueCtx("action", BPass) },
		func() *LazyProgram { return progNonFatal(5) },
		func() *LazyProgram { return progMachine() },
		func() *LazyProgram { return progMachineRejectedStepLeavesTraces() },
		func() *LazyProgram { return progRejectedAttemptsDecideTheSite() },
		func() *LazyProgram { return progCustomCleanup() },
		func() *LazyProgram { return progUniqueCtx("body", BPass) },
	}
	for i := range rejectionProgs() {
		i := i
		ps = append(ps, func() *LazyProgram { return rejectionProgs()[i] })
	}
	return ps
}

var c01Alpha = []Beh{BPass, BSkip, BErrorf, BErrorfSkip, BFatalA, BFatalB, BFailNowC, BPanicStr, BPanicErr, BNilDeref, BCleanupErrorf, BCleanupPanic, BGoErrorf, BCleanupErrorfSkip, BCleanupSkip, BErrorfReject, BCleanupPass}

// cutPoints: shrinktime values in virtual ms (= number of shrink-phase invocations allowed).
func cutPoints(s int, quick bool) []int {
	var out []int
	if !quick {
		for j := 0; j <= s && j <= 300; j++ {
			out = append(out, j)
		}
		for j := 301; j <= s; j += 37 {
			out = append(out, j)
		}
		return out
	}
	a, b := 0, 1
	for a <= s {
		out = append(out, a)
		a, b = b, a+b
		if len(out) > 2 && out[len(out)-1] == out[len(out)-2] {
			out = out[:len(out)-1]
		}
	}
	return out
}

// c01Oracle checks clauses (a), (b), (c) of C01 on one Check run.
func c01Oracle(c *Ctx, prog *LazyProgram, log *RunLog, assign []KV, devs int, what string) {
	env := log.Env
	v := log.Verdict()
	cfg := log.Cfg
	full := append([]KV(nil), env.Seen...)
	replay := map[string]any{"program": prog.Name, "assign": assign, "config": cfg.String(), "what": what}
	viol := func(clause, detail string) {
		c.Violate(Violation{Sig: "C01 " + clause, Detail: fmt.Sprintf("%s\nprogram %s; %s; %s\nTB: %s %q\ninvocations: %s", detail, prog.Name, cfg, what, v.Class, trunc(v.ErrText, 400), SummarizeInvs(env.Invs, 10)), Replay: replay, Devs: devs})
	}
	if log.Escaped != nil {
		viol("escaped-panic", fmt.Sprintf("Check let a panic escape: %v", log.Escaped))
		return
	}
	first := env.FirstFalsified()
	if v.Class == "flaky" {
		cause := "other"
		if first != nil {
			cause = first.Signalled[0].String()
		}
		viol("flaky-reported cause="+cause+" prog="+prog.Name, "Check called a deterministic property flaky")
		return
	}
	if first == nil {
		if log.TB.IsFail && v.Class != "only-generated" {
			viol("failure-without-falsification", "no executed test case falsified the property, yet the test was failed")
		}
		return
	}
	if v.Class != "failed" && v.Class != "panic" {
		return // a lost falsification is C02's business
	}
	last := env.Invs[len(env.Invs)-1]
	sig, ok := firstSignal(last)
	if !ok {
		cause := "?"
		if d, ok := firstSignal(first); ok {
			cause = d.Ctx + ":" + d.Beh.String()
		}
		viol("presented-case-does-not-falsify prog="+prog.Name+" found-as="+cause, fmt.Sprintf("the final replay ('Failed test output', draws %s) did not signal any failure", last.Draws))
		return
	}
	exp := ExpectedText(sig.Beh, drawsOfKey(sig.Key))
	if sig.Ctx == "library" {
		exp = drawsOfKey(sig.Key) // a failure raised by rapid itself on behalf of this invocation
	}
	if exp != "" && !strings.Contains(v.ErrText, exp) {
		viol("message-names-another-failure prog="+prog.Name, fmt.Sprintf("the presented case fails with %s (%q expected in the message), the message says otherwise", sig.Beh, exp))
	}
	if len(last.DrawLog) > 0 {
		got := loggedDraws(v.FinalLogs)
		if strings.Join(got, "\n") != strings.Join(last.DrawLog, "\n") {
			viol("logged-draws-differ prog="+prog.Name, fmt.Sprintf("draws logged under 'Failed test output': %q; values the invocation received: %q", got, last.DrawLog))
		}
	}
	if !cfg.NoFailFile {
		if len(log.Files) != 1 {
			viol("fail-file-count", fmt.Sprintf("%d files under testdata after a failing run, want exactly 1: %v", len(log.Files), sortedKeys(log.Files)))
			return
		}
		path := sortedKeys(log.Files)[0]
		if v.FailFile != path {
			viol("fail-file-name-differs", fmt.Sprintf("message names %q, file on disk is %q", v.FailFile, path))
		}
		ver, _, words, err := rapid.VerifLoadFailFile(path)
		if err != nil || ver != rapid.VerifVersion() {
			viol("fail-file-unloadable", fmt.Sprintf("written fail file does not load: version %q err %v", ver, err))
			return
		}
		res, inv := RunBody(prog, full, words)
		c.R.Evals++
		if !inv.Falsified() || inv.Draws != last.Draws || siteID(inv) != siteID(last) || (res.Kind != rapid.VerifFail && res.Kind != rapid.VerifPanic) {
			viol("fail-file-is-another-case prog="+prog.Name, fmt.Sprintf("replaying the fail file words %s: %s draws %s site %s; presented case: draws %s site %s", fmtWords(words), kindName(res.Kind), inv.Draws, siteID(inv), last.Draws, siteID(last)))
		}
		ftb, finv, esc := RunBodyFuzz(prog, full, wordsToBytes(words))
		c.R.Evals++
		if esc != nil || !ftb.IsFail || finv.Draws != last.Draws {
			viol("fail-file-through-fuzz-differs prog="+prog.Name, fmt.Sprintf("the fail file words through MakeFuzz: failed=%v escaped=%v draws %s; presented case draws %s", ftb.IsFail, esc, finv.Draws, last.Draws))
		}
		// the next Check of the same test finds the failure through that file: what it reports is held to
		// the same standard - a real failure of the presented case, never "flaky"
		env2 := NewEnv(full, prog.Base)
		cfg2 := cfg
		cfg2.Seed ^= 0x77
		log2 := RunCheck(prog, env2, cfg2)
		c.R.Evals++
		if v2 := log2.Verdict(); v2.Class == "flaky" {
			viol("flaky-reported-on-fail-file-replay prog="+prog.Name, fmt.Sprintf("the rerun that replays the saved fail file calls the property flaky: %q", trunc(v2.ErrText, 300)))
		} else if (v2.Class == "failed" || v2.Class == "panic") && v2.After == 0 && len(env2.Invs) > 0 {
			last2 := env2.Invs[len(env2.Invs)-1]
			if sig2, ok := firstSignal(last2); !ok {
				viol("presented-case-does-not-falsify-on-fail-file-replay prog="+prog.Name, fmt.Sprintf("final replay of the rerun (draws %s) did not signal any failure", last2.Draws))
			} else if exp2 := ExpectedText(sig2.Beh, drawsOfKey(sig2.Key)); exp2 != "" && sig2.Ctx != "library" && !strings.Contains(v2.ErrText, exp2) {
				viol("message-names-another-failure-on-fail-file-replay prog="+prog.Name, fmt.Sprintf("%q expected in %q", exp2, trunc(v2.ErrText, 300)))
			}
		}
	} else if len(log.Files) != 0 {
		viol("fail-file-written-despite-nofailfile", fmt.Sprintf("files: %v", sortedKeys(log.Files)))
	}
}

func c01Units(tier string, seed int64) []Unit {
	quick := tier != "thorough"
	var units []Unit
	nseeds := 2
	if !quick {
		nseeds = 16
	}
	for pi, mk := range c01Progs() {
		for _, checks := range []int{1, 5} {
			for _, nff := range []bool{true, false} {
				for s := 0; s < nseeds; s++ {
					pi, mk, checks, nff := pi, mk, checks, nff
					if quick && checks == 1 && mk().Name == "rejected-attempts-decide-the-site" {
						continue // the quick tier runs this (expensive: many cut points) program with 5 checks only
					}
					sd := uint64(seed)*7907 + uint64(s)*104729 + 11
					units = append(units, Unit{Name: fmt.Sprintf("C01/prog=%d/checks=%d/nofailfile=%v/seed=%d", pi, checks, nff, sd), Run: func(c *Ctx) {
						prog := mk()
						cfg := Config{Checks: checks, Seed: sd, ShrinkMS: -1, NoFailFile: nff, Steps: 6, Name: "TestC01"}
						d := &LazyDFS{Prog: prog, Cfg: cfg, Alphabet: func(string) []Beh { return c01Alpha }, P: 6, MaxDev: 1, PreRun: CleanFailFiles}
						if !quick {
							d.P, d.MaxDev, d.MaxRuns = 24, 2, 30000
							if checks == 10 {
								d.MaxDev = 1
							}
						}
						c.R.Bounds = fmt.Sprintf("deviations<=%d over first %d inputs; cut points: shrinktime 0, unlimited, and after every j-th shrink invocation (quick: Fibonacci j)", d.MaxDev, d.P)
						d.Explore(c, func(log *RunLog, assign []KV, devs int) {
							env := log.Env
							v := log.Verdict()
							c.Outcome(fmt.Sprintf("%s invs=%d site=%s", v.Class, len(env.Invs), siteID(env.FirstFalsified())), v.Class == "failed" || v.Class == "panic")
							c01Oracle(c, prog, log, assign, devs, "uncut")
							if v.Class != "failed" && v.Class != "panic" {
								return
							}
							// cut points: only where minimization ran (a random failing case was found)
							blamed := env.Blamed()
							if blamed == nil {
								return
							}
							shrinkInvs := len(env.Invs) - (blamed.Idx + 2)
							full := append([]KV(nil), env.Seen...)
							for _, j := range cutPoints(shrinkInvs, quick) {
								if c.Expired() {
									c.Cap("time budget")
									return
								}
								CleanFailFiles()
								cfgj := cfg
								cfgj.ShrinkMS = j
								envj := NewEnv(full, prog.Base)
								logj := RunCheck(prog, envj, cfgj)
								c.R.Evals++
								c.R.Transitions += int64(len(envj.Invs))
								c.Count("cut_runs", 1)
								c01Oracle(c, prog, logj, assign, devs, fmt.Sprintf("minimization cut after %d invocations", j))
							}
						})
					}})
				}
			}
		}
	}
	// E1 -> R1: explorer-found failing streams of the rejection-based consumers as the first test case
	for pi := range rejectionProgs() {
		for _, nff := range []bool{true, false} {
			pi, nff := pi, nff
			units = append(units, Unit{Name: fmt.Sprintf("C01/e1-first-case/rejection-prog=%d/nofailfile=%v", pi, nff), Run: func(c *Ctx) {
				prog := rejectionProgs()[pi]
				max := 60
				if !quick {
					max = 1500
				}
				streams := failingStreams(c, prog, 18, 3, max)
				c.Count("explorer_found_failing_first_cases", int64(len(streams)))
				for si, words := range streams {
					if c.Expired() {
						c.Cap("time budget")
						return
					}
					cfg := Config{Checks: 3, Seed: uint64(seed)*131 + 977, ShrinkMS: -1, NoFailFile: nff, Name: "TestC01"}
					CleanFailFiles()
					env := NewEnv(nil, prog.Base)
					log := RunCheckWithFirstCase(prog, env, cfg, words)
					c.R.Evals++
					c.R.Transitions += int64(len(env.Invs))
					v := log.Verdict()
					c.Outcome(fmt.Sprintf("stream#%d %s invs=%d", si, v.Class, len(env.Invs)), true)
					if len(env.Invs) == 0 || !env.Invs[0].Falsified() {
						c.Violate(Violation{Sig: "C01 e1r1-first-case-not-installed prog=" + prog.Name, Detail: fmt.Sprintf("the explorer's failing stream %s did not become the first test case (first invocation: %s)", fmtWords(words), SummarizeInvs(env.Invs, 2)),
							Replay: map[string]any{"program": prog.Name, "words": words}})
						continue
					}
					c01Oracle(c, prog, log, nil, 0, fmt.Sprintf("explorer-found first case %s, uncut", fmtWords(words)))
					blamed := env.Blamed()
					if blamed == nil {
						continue
					}
					shrinkInvs := len(env.Invs) - (blamed.Idx + 2)
					for _, j := range cutPoints(shrinkInvs, quick) {
						cfgj := cfg
						cfgj.ShrinkMS = j
						CleanFailFiles()
						envj := NewEnv(nil, prog.Base)
						logj := RunCheckWithFirstCase(prog, envj, cfgj, words)
						c.R.Evals++
						c.R.Transitions += int64(len(envj.Invs))
						c.Count("cut_runs", 1)
						c01Oracle(c, prog, logj, nil, 0, fmt.Sprintf("explorer-found first case %s, minimization cut after %d invocations", fmtWords(words), j))
					}
				}
			}})
		}
	}
	return units
}

func init() {
	Register(&Check{
		ID:    "C01",
		Level: "model_checking",
		Rule: "E2 lazyprop over 11 base programs (threshold, two sites + panic, non-fatal only, Repeat machine, Custom with cleanup, unique inputs, 5 rejection-based generator consumers) x deviations of 13 behaviours on the first P inputs " +
			"x checks {1,5} x nofailfile {0,1} x base seeds; plus, for the 5 rejection-based consumers, every failing answer sequence E1 finds (depth 18, <=3 deviations, three base streams; capped at 60 quick / 1500 thorough per program) installed as the first test case of a real Check through the PRNG word seam (r1); every failing run is repeated with minimization cut after j shrink-phase invocations (virtual clock: 1 ms per invocation, -rapid.shrinktime=j ms). " +
			"Oracle: the last invocation (final replay) signals the failure the message names, logged draws = received draws, fail file words replay (buffer stream and MakeFuzz) to the same case; never flaky; no failure without a falsified case. " +
			"distinct = distinct (class, #invocations, site); non-trivial = a failure was reported.",
		Assumptions: []string{"cut points are enumerated at the granularity of property invocations: clock readings between two invocations see the same shrinker state"},
		Units:       c01Units,
		Budget:      map[string]time.Duration{"quick": 70 * time.Second, "thorough": 25 * time.Minute},
	})
}
