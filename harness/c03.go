package harness

// C03 - generated values always satisfy the generator's contract, for every bitstream.
// E1 over the whole catalogue (every public constructor, extreme parameters); the
// oracle is the catalogue's independent contract predicate; the outcome must be a
// value or "invalid data" - any other panic, or an execution that does not end, is a violation.

import (
	"fmt"
	"os"
	"os/exec"
	"runtime/debug"
	"strings"
	"time"

	"pgregory.net/rapid"
)

func c03Prop(body func(t *rapid.T, r *Rec), r *Rec) func(t *rapid.T) {
	return func(t *rapid.T) { body(t, r) }
}

func c03Check(c *Ctx, p Prog, res rapid.VerifResult, rec *Rec, how string, replay map[string]any, devs int) {
	switch res.Kind {
	case rapid.VerifOK:
		if rec.Bad != "" {
			c.Violate(Violation{Sig: "C03 out-of-contract prog=" + p.Name, Detail: how + ": " + rec.Bad, Replay: replay, Devs: devs})
		}
	case rapid.VerifInvalid:
		// rejected as invalid data: allowed
	default:
		what := "panic"
		if strings.Contains(res.Msg, "assertion failed") || strings.Contains(res.Msg, "invalid range") || strings.Contains(res.Msg, "group did not use any data") {
			what = "internal-assertion"
		}
		c.Violate(Violation{Sig: fmt.Sprintf("C03 %s prog=%s", what, p.Name), Detail: fmt.Sprintf("%s: generator ended with %s %q\n%s", how, kindName(res.Kind), res.Msg, res.Traceback), Replay: replay, Devs: devs})
	}
}

func c03Units(tier string, seed int64) []Unit {
	var units []Unit
	quick := tier != "thorough"
	tb := NewTB("C03")
	tb.Quiet = true
	for _, p := range AllProgs() {
		if p.Has("machine") {
			continue
		}
		for _, base := range []string{"zeros", "ones"} {
			p, base := p, base
			units = append(units, Unit{Name: "C03/" + p.Name + "/" + base, Run: func(c *Ctx) {
				body, ok := c03New(c, p)
				if !ok {
					return
				}
				e := &BitDFS{Base: BaseZero, Depth: 10, MaxDev: 2, Overrun: true}
				if base == "ones" {
					e.Base = BaseOnes
				}
				if quick {
					e.Alpha = LevelAlpha(AlphaAll(3, AlphaFull(16)), AlphaAll(2, AlphaEdge))
					e.MaxExecs = 150000
				} else {
					e.Depth, e.MaxDev = 16, 3
					e.Alpha = LevelAlpha(AlphaAll(8, AlphaFull(64)), AlphaAll(3, AlphaEdge), AlphaAll(1, AlphaCoin))
					if p.Has("coll") || p.Has("str") {
						e.MaxDev = 4
						e.Alpha = LevelAlpha(AlphaAll(4, AlphaFull(16)), AlphaAll(3, AlphaEdge), AlphaAll(1, AlphaCoin), AlphaAll(1, AlphaCoin))
					}
					e.MaxExecs = 6000000
				}
				c.R.Bounds = fmt.Sprintf("depth=%d deviations<=%d base=%s", e.Depth, e.MaxDev, base)
				e.Explore(c, func(src *Source, devs int) {
					rec := &Rec{}
					res := rapid.VerifRunSource(tb, src, false, c03Prop(body, rec))
					d := strings.Join(rec.Draws, "|")
					c.Outcome(kindName(res.Kind)+" "+d, res.Kind == rapid.VerifOK)
					if res.Kind != rapid.VerifInvalid || rec.Bad != "" {
						c03Check(c, p, res, rec, "explorer-answered stream", map[string]any{"engine": "bitdfs", "program": p.Name, "base": base, "answers": src.Trace, "words": src.Words()}, devs)
					}
				})
			}})
		}
	}
	// the PRNG from many seeds, and special word patterns through the real buffer stream
	for _, p := range AllProgs() {
		if p.Has("machine") {
			continue
		}
		p := p
		units = append(units, Unit{Name: "C03/" + p.Name + "/seeds+patterns", Run: func(c *Ctx) {
			body, ok := c03New(c, p)
			if !ok {
				return
			}
			n := 300
			if !quick {
				n = 20000
			}
			for s := 0; s < n; s++ {
				if s&255 == 0 && c.Expired() {
					c.Cap("time budget")
					return
				}
				sd := uint64(seed)*7919 + uint64(s)
				rec := &Rec{}
				ExecBegin(fmt.Sprintf("seed %d prog %s", sd, p.Name))
				res := rapid.VerifRunSeed(tb, sd, false, c03Prop(body, rec))
				ExecEnd()
				c.R.Evals++
				c.R.States++
				c.R.Transitions++
				c.Outcome(kindName(res.Kind)+" "+strings.Join(rec.Draws, "|"), res.Kind == rapid.VerifOK)
				c03Check(c, p, res, rec, fmt.Sprintf("PRNG seed %d", sd), map[string]any{"engine": "seed", "program": p.Name, "seed": sd}, 50)
			}
			// constant and alternating word patterns, truncated at every length
			pats := []uint64{0, ^uint64(0), 1, 1 << 63, 1<<63 - 1, 0x5555555555555555, 0xaaaaaaaaaaaaaaaa, 1 << 32, 1<<32 - 1, 1<<53 - 1, 1 << 52, 0xff, 0x100}
			maxLen := 24
			if !quick {
				maxLen = 64
			}
			for _, a := range pats {
				for _, b := range pats {
					if quick && a != b && a != 0 && b != 0 && a != ^uint64(0) && b != ^uint64(0) {
						continue
					}
					for l := 0; l <= maxLen; l++ {
						buf := make([]uint64, l)
						for i := range buf {
							if i%2 == 0 {
								buf[i] = a
							} else {
								buf[i] = b
							}
						}
						rec := &Rec{}
						ExecBegin(fmt.Sprintf("pattern %x/%x len %d prog %s", a, b, l, p.Name))
						res := rapid.VerifRunBuf(tb, buf, false, c03Prop(body, rec))
						ExecEnd()
						c.R.Evals++
						c.R.States++
						c.R.Transitions++
						c.Outcome(kindName(res.Kind)+" "+strings.Join(rec.Draws, "|"), res.Kind == rapid.VerifOK)
						c03Check(c, p, res, rec, fmt.Sprintf("buffer of %d words alternating %#x/%#x", l, a, b), map[string]any{"engine": "buffer", "program": p.Name, "words": buf}, 60)
						if res.Kind != rapid.VerifInvalid && l > len(res.Data) {
							break // longer buffers of the same pattern give the same run
						}
					}
				}
			}
		}})
	}
	// Make for two *different* types whose names coincide (function-local types), in one process
	units = append(units, Unit{Name: "C03/Make-same-named-local-types", Run: func(c *Ctx) {
		for round := 0; round < 3; round++ {
			for s := uint64(1); s <= 40; s++ {
				for _, f := range []func(tb *FakeTB, seed uint64) (string, string){makeLocalRecA, makeLocalRecB, makeLocalRecC} {
					got, bad := f(tb, s)
					c.R.Evals++
					c.R.States++
					c.R.Transitions++
					c.Outcome(got, true)
					if bad != "" {
						c.Violate(Violation{Sig: "C03 Make-wrong-dynamic-type " + sigOf(trunc(bad, 60)), Detail: fmt.Sprintf("Make for a function-local type named rec (seed %d): %s", s, bad), Replay: map[string]any{"engine": "seed", "seed": s}})
					}
				}
			}
		}
	}})
	// a constructor must return for every Go type it accepts: Make for a type that is recursive without a
	// pointer in the cycle (the usual "node with a slice of children"). An unbounded recursion while
	// constructing ends in Go's unrecoverable stack overflow, which takes the worker down; the parent
	// classifies that as "process-crash kind=stack-overflow unit=<this unit>".
	// recursive types: a constructor must return for every Go type it accepts. Each probe runs in a
	// subprocess, because an unbounded recursion while constructing ends in Go's unrecoverable stack overflow.
	for _, pr := range []struct{ key, typ string }{
		{"recNode", "node{Kids []node}"}, {"recList", "List []*List"}, {"recDict", "Dict map[string]*Dict"}, {"recChain", "Chain [1]*Chain"},
		{"recTree", "tree{L,R *tree}"}, {"recMutual", "A{B *B}, B{As []A}"}, {"recPtr", "P *P"},
		// the pointer in the cycle points to a type LITERAL (array, struct, slice, map of the named type)
		{"recPtrArr", "chain{Next *[1]chain}"}, {"recPtrStruct", "frame{Up *struct{F frame}}"}, {"recPtrSlice", "S{Kids *[]S}"}, {"recPtrMap", "M{Sub *map[bool]M}"},
	} {
		pr := pr
		units = append(units, Unit{Name: "C03/Make[" + pr.typ + "]/construct", Run: func(c *Ctx) {
			self, _ := os.Executable()
			out, err := exec.Command(self, "constructprobe", pr.key).CombinedOutput()
			c.R.Evals++
			c.R.States++
			c.R.Transitions++
			switch {
			case err == nil && strings.Contains(string(out), "constructed"):
				c.Outcome(strings.TrimSpace(string(out)), true)
			case crashKind(string(out)) != "":
				c.Outcome("crash "+crashKind(string(out)), true)
				c.Violate(Violation{Sig: "C03 constructor-never-returns prog=Make[" + pr.typ + "] crash=" + crashKind(string(out)),
					Detail: "rapid.Make for the recursive type " + pr.typ + " took the process down:\n" + trunc(string(out), 1500),
					Replay: map[string]any{"engine": "construct", "program": "Make[" + pr.typ + "]"}})
			default:
				c.R.HarnessErr = fmt.Sprintf("constructprobe %s: %v: %s", pr.key, err, trunc(string(out), 500))
			}
		}})
	}
	return units
}

func makeLocalRecA(tb *FakeTB, seed uint64) (string, string) {
	type rec struct{ A int8 }
	var out, bad string
	res := rapid.VerifRunSeed(tb, seed, false, func(t *rapid.T) {
		v := rapid.Make[[]rec]().Draw(t, "v")
		out = fmt.Sprintf("A%v", v)
	})
	if res.Kind == rapid.VerifPanic || res.Kind == rapid.VerifFail {
		bad = res.Msg
	}
	return out, bad
}

func makeLocalRecB(tb *FakeTB, seed uint64) (string, string) {
	type rec struct {
		B string
		C bool
	}
	var out, bad string
	res := rapid.VerifRunSeed(tb, seed, false, func(t *rapid.T) {
		v := rapid.Make[map[uint8]rec]().Draw(t, "v")
		out = fmt.Sprintf("B%d", len(v))
	})
	if res.Kind == rapid.VerifPanic || res.Kind == rapid.VerifFail {
		bad = res.Msg
	}
	return out, bad
}

func makeLocalRecC(tb *FakeTB, seed uint64) (string, string) {
	type rec uint16
	var out, bad string
	res := rapid.VerifRunSeed(tb, seed, false, func(t *rapid.T) {
		v := rapid.Make[*rec]().Draw(t, "v")
		out = fmt.Sprintf("C%v", v == nil)
	})
	if res.Kind == rapid.VerifPanic || res.Kind == rapid.VerifFail {
		bad = res.Msg
	}
	return out, bad
}

func init() {
	Register(&Check{
		ID:    "C03",
		Level: "model_checking",
		Rule: "E1 bitdfs over every catalogue program (every public constructor, extreme parameters, depth-2 nestings): all sequences of drawBits answers over the per-width alphabet " +
			"within the depth/deviation bounds around all-zero and all-ones, overrun at every position; plus PRNG seeds and alternating word patterns truncated at every length through the real buffer stream. " +
			"Oracle: independent contract predicate; outcome is a value or invalid-data. distinct = distinct (verdict, value) per unit; non-trivial = a value was produced (contract predicate evaluated).",
		Assumptions: []string{"per-width answer alphabet (boundary words and a 16/64-point grid), not all 2^64 words",
			"generator expressions limited to the catalogue in harness/catalog.go (every public constructor at least once, depth-2 nestings)"},
		Units:  c03Units,
		Budget: map[string]time.Duration{"quick": 75 * time.Second, "thorough": 25 * time.Minute},
	})
}

// c03New builds the program's generators. Every catalogue expression is within the documented
// parameter domain of its constructor, so a construction-time panic is a violation, not a harness error.
func c03New(c *Ctx, p Prog) (body func(t *rapid.T, r *Rec), ok bool) {
	defer func() {
		if r := recover(); r != nil {
			c.Violate(Violation{Sig: "C03 constructor-panics prog=" + p.Name, Detail: fmt.Sprintf("constructing the generator panicked: %v", r),
				Replay: map[string]any{"engine": "construct", "program": p.Name}})
			body, ok = nil, false
		}
	}()
	return p.New(), true
}

type recNode struct {
	Val  int8
	Kids []recNode
}

// ConstructProbeMain (subprocess) constructs one generator whose construction may never return, and
// draws from it on a short all-zero buffer (every pointer nil, every collection empty).
func ConstructProbeMain(which string) {
	debug.SetMaxStack(64 << 20) // fail after 64 MiB of stack instead of 1 GiB
	tb := NewTB("probe")
	run := func(name string, prop func(t *rapid.T)) {
		res := rapid.VerifRunBuf(tb, make([]uint64, 8), false, prop)
		fmt.Println("constructed", name, "drew:", kindName(res.Kind))
	}
	switch which {
	case "recNode":
		g := rapid.Make[recNode]()
		run(g.String(), func(t *rapid.T) { g.Draw(t, "v") })
	case "recList":
		g := rapid.Make[recList]()
		run(g.String(), func(t *rapid.T) { g.Draw(t, "v") })
	case "recDict":
		g := rapid.Make[recDict]()
		run(g.String(), func(t *rapid.T) { g.Draw(t, "v") })
	case "recChain":
		g := rapid.Make[recChain]()
		run(g.String(), func(t *rapid.T) { g.Draw(t, "v") })
	case "recTree":
		g := rapid.Make[recTree]()
		run(g.String(), func(t *rapid.T) { g.Draw(t, "v") })
	case "recMutual":
		g := rapid.Make[recA]()
		run(g.String(), func(t *rapid.T) { g.Draw(t, "v") })
	case "recPtr":
		g := rapid.Make[recPtr]()
		run(g.String(), func(t *rapid.T) { g.Draw(t, "v") })
	case "recPtrArr":
		g := rapid.Make[recPtrArr]()
		run(g.String(), func(t *rapid.T) { g.Draw(t, "v") })
	case "recPtrStruct":
		g := rapid.Make[recPtrStruct]()
		run(g.String(), func(t *rapid.T) { g.Draw(t, "v") })
	case "recPtrSlice":
		g := rapid.Make[recPtrSlice]()
		run(g.String(), func(t *rapid.T) { g.Draw(t, "v") })
	case "recPtrMap":
		g := rapid.Make[recPtrMap]()
		run(g.String(), func(t *rapid.T) { g.Draw(t, "v") })
	}
}

type (
	recPtrArr struct {
		V    int8
		Next *[1]recPtrArr
	}
	recPtrStruct struct {
		Up *struct{ F recPtrStruct }
	}
	recPtrSlice struct {
		Kids *[]recPtrSlice
	}
	recPtrMap struct {
		Sub *map[bool]recPtrMap
	}
	recList  []*recList
	recDict  map[string]*recDict
	recChain [1]*recChain
	recTree  struct {
		V    int8
		L, R *recTree
	}
	recA   struct{ B *recB }
	recB   struct{ As []recA }
	recPtr *recPtr
)
