package harness

import (
	"fmt"
	"os"
	"os/exec"
	"strconv"
	"strings"
	"sync"
	"unicode"

	"pgregory.net/rapid"
)

// "This does not depend on what other ... generators were used earlier in the process."
//
// The history that matters for a process-wide cache is which other generator expressions were
// constructed and used before. HistoryFamily is a bounded family of expressions that reach every
// process-wide table the library keeps (rune tables, loaded dice, compiled regexps, character-class
// generators); the construction-history unit runs, in fresh processes, every rotation of the family
// (so that for every ordered pair (A, B) some process builds A before B) and compares what each
// member draws with what it draws in a process that built nothing else.

var histTables = func() []*unicode.RangeTable {
	var ts []*unicode.RangeTable
	for r := 'a'; r < 'a'+17; r++ {
		ts = append(ts, &unicode.RangeTable{R16: []unicode.Range16{{Lo: uint16(r), Hi: uint16(r), Stride: 1}}})
	}
	return ts
}()

func HistoryFamily() []Prog {
	var ps []Prog
	// every shape of the weighted choice between explicit runes and k tables, k <= 16
	for k := 0; k <= 16; k++ {
		for _, withRunes := range []bool{false, true} {
			if k == 0 && !withRunes {
				continue
			}
			k, withRunes := k, withRunes
			ps = append(ps, Prog{Name: fmt.Sprintf("RuneFrom(runes=%v,tables=%d)x4", withRunes, k), New: func() func(t *rapid.T, r *Rec) {
				var runes []rune
				if withRunes {
					runes = []rune{'X', 'Y'}
				}
				g := rapid.RuneFrom(runes, histTables[:k]...)
				return func(t *rapid.T, r *Rec) {
					for i := 0; i < 4; i++ {
						r.Draws = append(r.Draws, Render(g.Draw(t, "r")))
					}
				}
			}})
		}
	}
	// tables that contain runes which cannot be encoded (surrogate halves) next to ordinary ones; each table is used by
	// two members, so that in some rotation one is built after the other has put the table into the process-wide cache
	for _, tc := range []struct {
		name string
		ts   []*unicode.RangeTable
	}{{"C", []*unicode.RangeTable{unicode.C}}, {"Cs,Lu", []*unicode.RangeTable{unicode.Cs, unicode.Lu}}, {"Co,Cs,Nd", []*unicode.RangeTable{unicode.Co, unicode.Cs, unicode.Nd}}} {
		for _, withRunes := range []bool{false, true} {
			tc, withRunes := tc, withRunes
			ps = append(ps, Prog{Name: fmt.Sprintf("RuneFrom(runes=%v,%s)x24", withRunes, tc.name), New: func() func(t *rapid.T, r *Rec) {
				var runes []rune
				if withRunes {
					runes = []rune{'q'}
				}
				g := rapid.RuneFrom(runes, tc.ts...)
				return func(t *rapid.T, r *Rec) {
					for i := 0; i < 24; i++ {
						r.Draws = append(r.Draws, Render(g.Draw(t, "r")))
					}
				}
			}})
		}
	}
	// the same class spelled differently, classes that differ only by a flag (and print identically once
	// simplified: \d and (?i)\d are both [0-9]), nested classes - every expression under every flag
	for _, expr := range []string{`[a-c]`, `[abc]`, `[^a-c]`, `[a-c]+`, `.`, `\d`, `[0-9]`, `\D`, `\w\W`, `[[:alpha:]]`, `[[:^alpha:]]`, `[0-9a-fA-F]{3}`, `[0-9a-f]{3}`, `[A-Za-z]`, `[a-z]`,
		`\pL`, `\PL`, `\p{Lu}`, `\p{Greek}`, `a|b|c`, `[a-c][a-c]`, `a+`, `^a$`, `#[0-9a-fA-F]{2}`, `0x[0-9a-f]+`,
		// classes whose printed forms are long and share a long prefix (a class and the same class with one more range at the end)
		`[\p{L}\x{1F300}-\x{1FAFF}]{6}`, `[\p{L}\x{1F300}-\x{1FAFF}\x{20000}-\x{2A6DF}]{6}`, `[\p{Han}]{3}`, `[\p{Han}0-9]{3}`, `[\p{Lu}\p{Nd}]{4}`, `[\p{Lu}\p{Nd}_]{4}`} {
		for _, fl := range []string{"", "(?i)", "(?s)", "(?U)", "(?m)"} {
			expr := fl + expr
			ps = append(ps, one(fmt.Sprintf("StringMatching(%q)", expr), "", func() *rapid.Generator[string] { return rapid.StringMatching(expr) }, nil))
			if fl == "" || fl == "(?i)" {
				ps = append(ps, one(fmt.Sprintf("SliceOfBytesMatching(%q)", expr), "", func() *rapid.Generator[[]byte] { return rapid.SliceOfBytesMatching(expr) }, nil))
			}
		}
	}
	ps = append(ps, StringProgs()...)
	ps = append(ps, CombinatorProgs()...)
	return ps
}

func histDigest(body func(t *rapid.T, r *Rec)) string {
	tb := NewTB("C04")
	tb.Quiet = true
	var b strings.Builder
	for sd := uint64(1); sd <= 8; sd++ {
		o, _ := runWith(body, func(prop func(*rapid.T)) rapid.VerifResult {
			return rapid.VerifRunSeed(tb, sd*0x9e3779b97f4a7c15, false, prop)
		})
		fmt.Fprintf(&b, "%d:%s;", o.res.Kind, o.draws)
	}
	for _, w := range [][]uint64{make([]uint64, 64), ones(64)} {
		o, _ := runWith(body, func(prop func(*rapid.T)) rapid.VerifResult { return rapid.VerifRunBuf(tb, w, false, prop) })
		fmt.Fprintf(&b, "%d:%s;", o.res.Kind, o.draws)
	}
	return b.String()
}

func ones(n int) []uint64 {
	w := make([]uint64, n)
	for i := range w {
		w[i] = ^uint64(0)
	}
	return w
}

// HistDigestMain (subprocess): build and use count members of the family starting at start
// (wrapping around), print "index<TAB>digest" for each.
func HistDigestMain(a, b string) {
	start, _ := strconv.Atoi(a)
	count, _ := strconv.Atoi(b)
	fam := HistoryFamily()
	for j := 0; j < count; j++ {
		i := (start + j) % len(fam)
		d := func() (d string) {
			defer func() {
				if r := recover(); r != nil {
					d = fmt.Sprintf("panic: %v", r)
				}
			}()
			return histDigest(fam[i].New())
		}()
		fmt.Printf("%d\t%q\n", i, d)
	}
}

func histChild(start, count int) (map[int]string, error) {
	self, _ := os.Executable()
	out, err := exec.Command(self, "histdigest", fmt.Sprint(start), fmt.Sprint(count)).Output()
	if err != nil {
		return nil, err
	}
	m := map[int]string{}
	for _, ln := range strings.Split(strings.TrimSpace(string(out)), "\n") {
		f := strings.SplitN(ln, "\t", 2)
		if len(f) != 2 {
			return nil, fmt.Errorf("bad line %q", ln)
		}
		i, _ := strconv.Atoi(f[0])
		s, err := strconv.Unquote(f[1])
		if err != nil {
			return nil, err
		}
		m[i] = s
	}
	return m, nil
}

func c04HistoryUnit() Unit {
	return Unit{Name: "C04/construction-history", Run: func(c *Ctx) {
		fam := HistoryFamily()
		n := len(fam)
		c.R.Bounds = fmt.Sprintf("family=%d expressions, %d rotations (every ordered pair built in that order in some process), 8 seeds + 2 buffers each", n, n)
		alone := make([]string, n)
		rot := make([]map[int]string, n)
		var mu sync.Mutex
		var firstErr error
		sem := make(chan struct{}, 8)
		var wg sync.WaitGroup
		for i := 0; i < n; i++ {
			i := i
			wg.Add(2)
			go func() {
				defer wg.Done()
				sem <- struct{}{}
				defer func() { <-sem }()
				m, err := histChild(i, 1)
				mu.Lock()
				if err != nil && firstErr == nil {
					firstErr = err
				}
				alone[i] = m[i]
				mu.Unlock()
			}()
			go func() {
				defer wg.Done()
				sem <- struct{}{}
				defer func() { <-sem }()
				m, err := histChild(i, n)
				mu.Lock()
				if err != nil && firstErr == nil {
					firstErr = err
				}
				rot[i] = m
				mu.Unlock()
			}()
		}
		wg.Wait()
		if firstErr != nil {
			c.R.HarnessErr = "histdigest subprocess: " + firstErr.Error()
			return
		}
		for i := 0; i < n; i++ {
			c.Outcome(fam[i].Name+alone[i], true)
		}
		for k := 0; k < n; k++ {
			for j := 0; j < n; j++ {
				i := (k + j) % n
				c.R.Evals++
				c.R.States++
				c.R.Transitions++
				if rot[k][i] != alone[i] {
					// name the shortest history that shows it: the members built before i in rotation k
					c.Violate(Violation{Sig: "C04 construction-history-dependence prog=" + fam[i].Name,
						Detail: fmt.Sprintf("in a process that built only this generator it draws\n  %s\nin a process that first built and used the %d family members starting at %q it draws\n  %s",
							trunc(alone[i], 300), j, fam[k].Name, trunc(rot[k][i], 300)),
						Replay: map[string]any{"engine": "history", "start": k, "count": j + 1, "member": i}})
					break
				}
			}
		}
	}}
}
