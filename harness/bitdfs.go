package harness

// E1: stateless depth-first search over the answers to drawBits(n).
//
// The system is closed by Source, an externally answered bitstream handed to
// the real code through rapid.VerifRunSource. run(prefix) replays prefix and
// then gives the base answer (all-zero or all-ones) at every later draw; every
// position after the prefix is then re-opened with every alternative of the
// alphabet for the requested width, as long as the number of non-base answers
// stays within the deviation bound. Executions always run to completion; at
// the depth bound the stream ends ("overrun"), so every execution terminates.

import (
	"fmt"
	"math"
	"math/bits"
	"sort"

	"pgregory.net/rapid"
)

type Draw struct {
	N       int    `json:"n"`
	Val     uint64 `json:"v"`
	Overrun bool   `json:"overrun,omitempty"`
}

type divergence struct{ msg string }

type Source struct {
	prefix   []Draw
	Trace    []Draw
	depth    int
	base     func(n int) uint64
	Diverged string
	Ended    bool
}

// NewSource: a stream that replays prefix, then answers base(n) up to depth draws, then is exhausted.
func NewSource(prefix []Draw, depth int, base func(n int) uint64) *Source {
	return &Source{prefix: prefix, depth: depth, base: base}
}

func (s *Source) DrawBits(n int) uint64 {
	i := len(s.Trace)
	var d Draw
	switch {
	case s.Ended:
		// like an exhausted buffer, an ended stream stays ended even if the code under test
		// recovers from the first "overrun" (Repeat actions and Custom functions do)
		d = Draw{N: n, Overrun: true}
	case i < len(s.prefix):
		d = s.prefix[i]
		if d.N != n && s.Diverged == "" {
			s.Diverged = fmt.Sprintf("draw %d asked for %d bits, the same prefix asked for %d before", i, n, d.N)
		}
		d.N = n
	case i >= s.depth:
		d = Draw{N: n, Overrun: true}
	default:
		d = Draw{N: n, Val: s.base(n) & mask(n)}
	}
	s.Trace = append(s.Trace, d)
	if d.Overrun {
		s.Ended = true
		rapid.VerifOverrun()
	}
	return d.Val & mask(n)
}

// IsEnded tells the library's stream wrapper that the stream is exhausted (and stays so).
func (s *Source) IsEnded() bool { return s.Ended }

func (s *Source) BeginGroup(label string, standalone bool) {}
func (s *Source) EndGroup(discard bool)                    {}

// Words returns the answers as 64-bit words (what a buffer replay would be fed).
func (s *Source) Words() []uint64 {
	var w []uint64
	for _, d := range s.Trace {
		if d.Overrun {
			break
		}
		w = append(w, d.Val)
	}
	return w
}

func mask(n int) uint64 {
	if n >= 64 {
		return ^uint64(0)
	}
	return uint64(1)<<uint(n) - 1
}

func BaseZero(n int) uint64 { return 0 }
func BaseOnes(n int) uint64 { return ^uint64(0) }

// Alphabets. They depend only on the requested width.

func uniq(vs []uint64, n int) []uint64 {
	m := mask(n)
	seen := map[uint64]bool{}
	var out []uint64
	for _, v := range vs {
		v &= m
		if !seen[v] {
			seen[v] = true
			out = append(out, v)
		}
	}
	sort.Slice(out, func(i, j int) bool { return out[i] < out[j] })
	return out
}

// AlphaAll: all 2^n values for n <= small, else the given fallback.
func AlphaAll(small int, fallback func(n int) []uint64) func(n int) []uint64 {
	return func(n int) []uint64 {
		if n == 0 {
			return []uint64{0}
		}
		if n <= small {
			out := make([]uint64, 1<<uint(n))
			for i := range out {
				out[i] = uint64(i)
			}
			return out
		}
		return fallback(n)
	}
}

// AlphaCoin: {0, max} - both outcomes of every biased coin, min and overflow of every biased integer.
func AlphaCoin(n int) []uint64 {
	if n == 0 {
		return []uint64{0}
	}
	return uniq([]uint64{0, mask(n)}, n)
}

// AlphaEdge: {0,1,2,3,max-1,max,2^(n-1),2^(n-1)-1}
func AlphaEdge(n int) []uint64 {
	if n == 0 {
		return []uint64{0}
	}
	m := mask(n)
	return uniq([]uint64{0, 1, 2, 3, m - 1, m, uint64(1) << uint(n-1), uint64(1)<<uint(n-1) - 1}, n)
}

// AlphaQuarter: the edge alphabet plus the quarter points 2^(n-2) and 3*2^(n-2).
func AlphaQuarter(n int) []uint64 {
	if n < 3 {
		return AlphaEdge(n)
	}
	q := uint64(1) << uint(n-2)
	return uniq(append(append([]uint64{}, AlphaEdge(n)...), q, 3*q), n)
}

// AlphaGrid: the edge alphabet plus a g-point grid (enough to hit every small bit length of a biased draw).
func AlphaGrid(g int) func(n int) []uint64 {
	return func(n int) []uint64 {
		if n == 0 {
			return []uint64{0}
		}
		vs := append([]uint64{}, AlphaEdge(n)...)
		for j := 0; j < g; j++ {
			if n >= 64 {
				vs = append(vs, uint64(j)*(^uint64(0)/uint64(g)))
			} else {
				hi, lo := bits.Mul64(uint64(j), uint64(1)<<uint(n))
				q, _ := bits.Div64(hi, lo, uint64(g))
				vs = append(vs, q)
			}
		}
		return uniq(vs, n)
	}
}

// AlphaLog: 2^n - 2^n*2^(-j/step) for j = 0..n*step: log-spaced towards the top, so that a draw that is
// turned into a geometric variate (bit length of a biased integer) can take every integer outcome.
func AlphaLog(step int) func(n int) []uint64 {
	return func(n int) []uint64 {
		if n == 0 {
			return []uint64{0}
		}
		vs := []uint64{0, mask(n)}
		top := math.Ldexp(1, n)
		for j := 0; j <= n*step; j++ {
			f := 1 - math.Exp2(-float64(j)/float64(step))
			v := f * top
			if v >= top {
				v = top - 1
			}
			vs = append(vs, uint64(v))
		}
		return uniq(vs, n)
	}
}

// AlphaUnion merges alphabets.
func AlphaUnion(as ...func(n int) []uint64) func(n int) []uint64 {
	return func(n int) []uint64 {
		var vs []uint64
		for _, a := range as {
			vs = append(vs, a(n)...)
		}
		return uniq(vs, n)
	}
}

// AlphaFull: {0,1,2,3} u {2^k, 2^k-1, 2^n-2^k : k<n} u {max-1,max} u {j*2^n/grid : j<grid}
func AlphaFull(grid int) func(n int) []uint64 {
	return func(n int) []uint64 {
		if n == 0 {
			return []uint64{0}
		}
		m := mask(n)
		vs := []uint64{0, 1, 2, 3, m - 1, m}
		for k := 0; k < n && k < 64; k++ {
			p := uint64(1) << uint(k)
			vs = append(vs, p, p-1, m-p+1)
		}
		for j := 0; j < grid; j++ {
			if n >= 64 {
				vs = append(vs, uint64(j)*(^uint64(0)/uint64(grid)))
			} else {
				hi, lo := bits.Mul64(uint64(j), uint64(1)<<uint(n))
				q, _ := bits.Div64(hi, lo, uint64(grid))
				vs = append(vs, q)
			}
		}
		return uniq(vs, n)
	}
}

// BitDFS is the explorer.
type BitDFS struct {
	Base     func(n int) uint64
	Alpha    func(n int, level int) []uint64 // alternatives when making the level-th deviation (1-based)
	Depth    int
	MaxDev   int
	Overrun  bool  // also explore "the stream ends here" at every position
	MaxExecs int64 // 0 = unlimited
	// PRNGFaithful: draws wider than 64 bits are always answered with all ones and never varied, as the
	// PRNG stream does; use it when the explored streams stand for what Check itself can generate.
	PRNGFaithful bool
	execs        int64
}

func clonePrefix(t []Draw, i int, d Draw) []Draw {
	out := make([]Draw, i+1)
	copy(out, t[:i])
	out[i] = d
	return out
}

// Explore runs run(src, devs) on every execution in the bounded space.
func (e *BitDFS) Explore(c *Ctx, run func(src *Source, devs int)) {
	stop := false
	var rec func(prefix []Draw, devs int)
	rec = func(prefix []Draw, devs int) {
		if stop {
			return
		}
		if e.MaxExecs > 0 && e.execs >= e.MaxExecs {
			c.Cap(fmt.Sprintf("execution cap %d", e.MaxExecs))
			stop = true
			return
		}
		if e.execs&1023 == 0 && c.Expired() {
			c.Cap("time budget")
			stop = true
			return
		}
		e.execs++
		base := e.Base
		if e.PRNGFaithful {
			base = func(n int) uint64 {
				if n > 64 {
					return ^uint64(0)
				}
				return e.Base(n)
			}
		}
		src := &Source{prefix: prefix, depth: e.Depth, base: base}
		ExecBegin(fmt.Sprintf("bitdfs prefix=%v", prefix))
		run(src, devs)
		ExecEnd()
		c.R.Evals++
		nw := int64(len(src.Trace) - len(prefix) + 1)
		if nw < 1 {
			nw = 1
		}
		c.R.States += nw
		c.R.Transitions += nw
		if src.Diverged != "" {
			c.Violate(Violation{Sig: "nondeterministic-replay-of-prefix", Detail: "the same answers led to a different request: " + src.Diverged,
				Replay: map[string]any{"prefix": prefix}, Devs: devs})
			return
		}
		if devs >= e.MaxDev {
			return
		}
		for i := len(prefix); i < len(src.Trace) && i < e.Depth; i++ {
			d := src.Trace[i]
			if d.Overrun {
				break
			}
			if e.PRNGFaithful && d.N > 64 {
				continue
			}
			for _, a := range e.Alpha(d.N, devs+1) {
				if a == d.Val {
					continue
				}
				rec(clonePrefix(src.Trace, i, Draw{N: d.N, Val: a}), devs+1)
				if stop {
					return
				}
			}
			if e.Overrun {
				rec(clonePrefix(src.Trace, i, Draw{N: d.N, Overrun: true}), devs+1)
			}
		}
	}
	rec(nil, 0)
}

// LevelAlpha builds a per-level alphabet: levels[0] for the first deviation, ... last one repeated.
func LevelAlpha(levels ...func(n int) []uint64) func(n int, level int) []uint64 {
	return func(n int, level int) []uint64 {
		i := level - 1
		if i >= len(levels) {
			i = len(levels) - 1
		}
		if i < 0 {
			i = 0
		}
		return levels[i](n)
	}
}
