//go:build go1.25

package fuzzwrap

// Check and MakeCheck inside a testing/synctest bubble (Go 1.25+): the natural way to test
// time-dependent code with a fake clock. Built and run only when a newer toolchain is present
// (checks/run.sh, VERIF_SYNCTEST_BIN); unit "C09/Check inside a synctest bubble" reads the lines.

import (
	"fmt"
	"testing"
	"testing/synctest"
	"time"

	"pgregory.net/rapid"
)

func TestSynctestCheck(t *testing.T) {
	t.Run("never-falsified", func(t *testing.T) {
		runs := 0
		synctest.Test(t, func(t *testing.T) {
			defer func() {
				if r := recover(); r != nil {
					fmt.Printf("SYNCTEST case=never-falsified outcome=panic runs=%d value=%q\n", runs, fmt.Sprint(r))
					t.FailNow()
				}
			}()
			rapid.Check(t, func(rt *rapid.T) {
				runs++
				d := time.Duration(rapid.IntRange(1, 1000).Draw(rt, "ms")) * time.Millisecond
				start := time.Now()
				time.Sleep(d)
				if got := time.Since(start); got != d {
					rt.Fatalf("slept %v instead of %v", got, d)
				}
			})
		})
		fmt.Printf("SYNCTEST case=never-falsified outcome=returned runs=%d failed=%v\n", runs, t.Failed())
	})
	t.Run("long-fake-sleeps", func(t *testing.T) {
		// every test case sleeps 400 fake days (a certificate that expires): no real time passes, no real deadline is near
		runs := 0
		synctest.Test(t, func(t *testing.T) {
			defer func() {
				if r := recover(); r != nil {
					fmt.Printf("SYNCTEST case=long-fake-sleeps outcome=panic runs=%d value=%q\n", runs, fmt.Sprint(r))
					t.FailNow()
				}
			}()
			rapid.Check(t, func(rt *rapid.T) {
				runs++
				rapid.Bool().Draw(rt, "b")
				time.Sleep(400 * 24 * time.Hour)
			})
		})
		fmt.Printf("SYNCTEST case=long-fake-sleeps outcome=returned runs=%d failed=%v\n", runs, t.Failed())
	})
	t.Run("make-check", func(t *testing.T) {
		runs := 0
		defer func() {
			if r := recover(); r != nil {
				fmt.Printf("SYNCTEST case=make-check outcome=panic runs=%d value=%q\n", runs, fmt.Sprint(r))
				t.FailNow()
			}
		}()
		synctest.Test(t, func(t *testing.T) {
			defer func() {
				if r := recover(); r != nil {
					fmt.Printf("SYNCTEST case=make-check outcome=panic runs=%d value=%q\n", runs, fmt.Sprint(r))
					t.FailNow()
				}
			}()
			rapid.MakeCheck(func(rt *rapid.T) { runs++; rapid.Bool().Draw(rt, "b") })(t)
		})
		fmt.Printf("SYNCTEST case=make-check outcome=returned runs=%d failed=%v\n", runs, t.Failed())
	})
}
