package fuzzwrap

// Binds the exported rapid.MakeFuzz wrapper (which needs a real *testing.T) to the body that C13
// explores: every case runs as a sub-test through the real wrapper; unit "C13/MakeFuzz-wrapper"
// runs this test binary, reads the sub-test statuses and compares them with the statuses the
// independent word replay predicts.

import (
	"testing"

	"pgregory.net/rapid"
	"verif/harness"
)

func TestFuzzWrapper(t *testing.T) {
	for _, c := range harness.FuzzWrapCases() {
		c := c
		t.Run(c.Name, func(st *testing.T) {
			rapid.MakeFuzz(c.Prop)(st, c.Input)
		})
	}
}

// TestCheckWrapper binds the exported Check / MakeCheck entry points to a real *testing.T: a failed Check
// must fail the enclosing (sub-)test and stop it (nothing after the call runs); a passing one must not.
func TestCheckWrapper(t *testing.T) {
	for _, c := range harness.CheckWrapCases() {
		c := c
		t.Run(c.Name, func(st *testing.T) {
			if c.Make {
				rapid.MakeCheck(c.Prop)(st)
			} else {
				rapid.Check(st, c.Prop)
			}
			st.Logf("AFTER-CHECK %s", c.Name)
		})
	}
}
