package harness

// "A drawn value belongs to the caller": three values are drawn from one generator and kept; drawing the
// later ones, and overwriting them in place, must not change an earlier one (a scratch buffer taken from a pool,
// a result that shares its backing array with the next one, a struct allocated once per generator ...).
// Every value must satisfy the contract when it is drawn AND at the end.

import (
	"fmt"
	"reflect"
	"regexp"

	"pgregory.net/rapid"
)

func deepCopyValue(v reflect.Value) reflect.Value {
	switch v.Kind() {
	case reflect.Slice:
		if v.IsNil() {
			return v
		}
		c := reflect.MakeSlice(v.Type(), v.Len(), v.Len())
		for i := 0; i < v.Len(); i++ {
			c.Index(i).Set(deepCopyValue(v.Index(i)))
		}
		return c
	case reflect.Map:
		if v.IsNil() {
			return v
		}
		c := reflect.MakeMapWithSize(v.Type(), v.Len())
		it := v.MapRange()
		for it.Next() {
			c.SetMapIndex(deepCopyValue(it.Key()), deepCopyValue(it.Value()))
		}
		return c
	case reflect.Pointer:
		if v.IsNil() {
			return v
		}
		c := reflect.New(v.Type().Elem())
		c.Elem().Set(deepCopyValue(v.Elem()))
		return c.Convert(v.Type())
	case reflect.Array:
		c := reflect.New(v.Type()).Elem()
		for i := 0; i < v.Len(); i++ {
			c.Index(i).Set(deepCopyValue(v.Index(i)))
		}
		return c
	case reflect.Struct:
		c := reflect.New(v.Type()).Elem()
		c.Set(v)
		for i := 0; i < v.NumField(); i++ {
			if c.Field(i).CanSet() {
				c.Field(i).Set(deepCopyValue(v.Field(i)))
			}
		}
		return c
	case reflect.Interface:
		if v.IsNil() {
			return v
		}
		c := reflect.New(v.Type()).Elem()
		c.Set(deepCopyValue(v.Elem()))
		return c
	}
	return v
}

// scribble overwrites everything reachable from v in place with the zero value / a marker (slices and arrays
// element by element, pointers through the pointer, maps by deleting every key).
func scribble(v reflect.Value) {
	switch v.Kind() {
	case reflect.Slice, reflect.Array:
		for i := 0; i < v.Len(); i++ {
			e := v.Index(i)
			scribble(e)
			if e.CanSet() {
				switch e.Kind() {
				case reflect.Uint8:
					e.SetUint(0xEE)
				case reflect.Int, reflect.Int8, reflect.Int16, reflect.Int32, reflect.Int64:
					e.SetInt(-77)
				case reflect.Slice, reflect.Map, reflect.Pointer, reflect.Struct, reflect.Array, reflect.Interface:
				default:
					e.Set(reflect.Zero(e.Type()))
				}
			}
		}
	case reflect.Map:
		for _, k := range v.MapKeys() {
			scribble(v.MapIndex(k))
			v.SetMapIndex(k, reflect.Value{})
		}
	case reflect.Pointer:
		if !v.IsNil() {
			scribble(v.Elem())
			if v.Elem().CanSet() && v.Elem().Kind() != reflect.Struct {
				switch v.Elem().Kind() {
				case reflect.Slice, reflect.Map, reflect.Pointer, reflect.Array, reflect.Interface:
				default:
					v.Elem().Set(reflect.Zero(v.Elem().Type()))
				}
			}
		}
	case reflect.Struct:
		for i := 0; i < v.NumField(); i++ {
			f := v.Field(i)
			scribble(f)
			if f.CanSet() {
				switch f.Kind() {
				case reflect.Slice, reflect.Map, reflect.Pointer, reflect.Struct, reflect.Array, reflect.Interface:
				default:
					f.Set(reflect.Zero(f.Type()))
				}
			}
		}
	case reflect.Interface:
		if !v.IsNil() {
			scribble(v.Elem())
		}
	}
}

func thrice[V any](name, tags string, mk func() *rapid.Generator[V], contract func(v V) string) Prog {
	return Prog{Name: name + " x3 kept", Tags: tags, New: func() func(t *rapid.T, r *Rec) {
		g := mk()
		return func(t *rapid.T, r *Rec) {
			var vs, keeps []V
			for i := 0; i < 3; i++ {
				v := g.Draw(t, fmt.Sprintf("v%d", i))
				r.Draws = append(r.Draws, Render(v))
				if contract != nil {
					if msg := contract(v); msg != "" {
						r.bad("%s: %s (value %s)", name, msg, Render(v))
					}
				}
				vs = append(vs, v)
				keeps = append(keeps, deepCopyValue(reflect.ValueOf(&v).Elem()).Interface().(V))
				for j := 0; j < i; j++ {
					if !reflect.DeepEqual(vs[j], keeps[j]) {
						r.bad("%s: value %d was %s when it was drawn and is %s after value %d has been drawn", name, j, Render(keeps[j]), Render(vs[j]), i)
					}
				}
			}
			// overwrite the newest value in place: the older ones belong to the caller as well
			scribble(reflect.ValueOf(&vs[2]).Elem())
			for j := 0; j < 2; j++ {
				if !reflect.DeepEqual(vs[j], keeps[j]) {
					r.bad("%s: value %d was %s and is %s after value 2 has been overwritten in place", name, j, Render(keeps[j]), Render(vs[j]))
				}
			}
			scribble(reflect.ValueOf(&vs[0]).Elem())
			if !reflect.DeepEqual(vs[1], keeps[1]) {
				r.bad("%s: value 1 was %s and is %s after value 0 has been overwritten in place", name, Render(keeps[1]), Render(vs[1]))
			}
		}
	}}
}

type stabNode struct {
	V    int8
	Next *stabNode
	Kids []int8
}

type famNode struct {
	Key  int
	Kids []famNode
}

// famCheck: in every sibling list the keys are distinct and the list is within its bounds, at every level
func famCheck(ns []famNode, depth int) string {
	if len(ns) > 4 {
		return "sibling list too long"
	}
	seen := map[int]bool{}
	for _, n := range ns {
		if seen[n.Key] {
			return fmt.Sprintf("key %d occurs twice among siblings at depth %d", n.Key, depth)
		}
		seen[n.Key] = true
		if msg := famCheck(n.Kids, depth+1); msg != "" {
			return msg
		}
	}
	return ""
}

func StabilityProgs() []Prog {
	var ps []Prog
	// ONE distinct-slice (and one distinct-map) generator value that is re-entered while an outer draw of the same
	// value is still collecting elements: every sibling list of a recursive tree comes from it
	ps = append(ps,
		one("recursive tree whose sibling lists all come from one SliceOfNDistinct value", "coll rej", func() *rapid.Generator[[]famNode] {
			var kids *rapid.Generator[[]famNode]
			node := rapid.Custom(func(t *rapid.T) famNode {
				n := famNode{Key: rapid.IntRange(0, 5).Draw(t, "key")}
				if rapid.IntRange(0, 3).Draw(t, "leaf") == 0 {
					n.Kids = kids.Draw(t, "kids")
				}
				return n
			})
			kids = rapid.SliceOfNDistinct(node, 0, 4, func(n famNode) int { return n.Key })
			return kids
		}, func(ns []famNode) string { return famCheck(ns, 0) }),
		one("recursive tree whose child maps all come from one MapOfNValues value", "coll rej", func() *rapid.Generator[map[int]famNode] {
			var kids *rapid.Generator[map[int]famNode]
			node := rapid.Custom(func(t *rapid.T) famNode {
				n := famNode{Key: rapid.IntRange(0, 5).Draw(t, "key")}
				if rapid.IntRange(0, 3).Draw(t, "leaf") == 0 {
					m := kids.Draw(t, "kids")
					for key := 0; key <= 5; key++ { // in key order: Go's map iteration order must not leak into the value
						if k, ok := m[key]; ok {
							n.Kids = append(n.Kids, k)
						}
					}
				}
				return n
			})
			kids = rapid.MapOfNValues(node, 0, 4, func(n famNode) int { return n.Key })
			return kids
		}, func(m map[int]famNode) string {
			for k, n := range m {
				if k != n.Key {
					return "key is not keyFn(value)"
				}
				if msg := famCheck(n.Kids, 1); msg != "" {
					return msg
				}
			}
			if len(m) > 4 {
				return "too long"
			}
			return ""
		}))
	for _, expr := range []string{`a[0-9]{3}|b[A-Z]{7}`, `[ACGT]{8}`, `x*`, `(ab|c){1,3}`} {
		expr := expr
		re := regexp.MustCompile("^(?:" + expr + ")$")
		ps = append(ps,
			thrice(fmt.Sprintf("SliceOfBytesMatching(%q)", "^("+expr+")$"), "str re rej wide", func() *rapid.Generator[[]byte] { return rapid.SliceOfBytesMatching("^(" + expr + ")$") }, func(s []byte) string {
				if !re.Match(s) {
					return "does not match the regexp"
				}
				return ""
			}),
			thrice(fmt.Sprintf("SliceOfN(SliceOfBytesMatching(%q),2,3)", "^("+expr+")$"), "str re rej wide coll", func() *rapid.Generator[[][]byte] {
				return rapid.SliceOfN(rapid.SliceOfBytesMatching("^("+expr+")$"), 2, 3)
			}, func(ss [][]byte) string {
				for _, s := range ss {
					if !re.Match(s) {
						return "an element does not match the regexp"
					}
				}
				if len(ss) < 2 || len(ss) > 3 {
					return "length out of bounds"
				}
				return ""
			}))
	}
	small := func(v []int8) string {
		if len(v) > 4 {
			return "too long"
		}
		return ""
	}
	ps = append(ps,
		thrice("SliceOfN(Int8(),0,4)", "coll", func() *rapid.Generator[[]int8] { return rapid.SliceOfN(rapid.Int8(), 0, 4) }, small),
		thrice("SliceOfNDistinct(Int8Range(0,5),0,4,id)", "coll rej", func() *rapid.Generator[[]int8] {
			return rapid.SliceOfNDistinct(rapid.Int8Range(0, 5), 0, 4, rapid.ID[int8])
		}, func(v []int8) string {
			seen := map[int8]bool{}
			for _, x := range v {
				if seen[x] {
					return "duplicate"
				}
				seen[x] = true
			}
			return small(v)
		}),
		thrice("SliceOfBytes via SliceOfN(Byte(),1,4)", "coll", func() *rapid.Generator[[]byte] { return rapid.SliceOfN(rapid.Byte(), 1, 4) }, nil),
		thrice("MapOfN(Int8Range(0,5),Int8(),0,3)", "coll rej", func() *rapid.Generator[map[int8]int8] { return rapid.MapOfN(rapid.Int8Range(0, 5), rapid.Int8(), 0, 3) }, func(m map[int8]int8) string {
			if len(m) > 3 {
				return "too long"
			}
			return ""
		}),
		thrice("MapOfNValues(Int8Range(0,9),0,3,mod3)", "coll rej", func() *rapid.Generator[map[int8]int8] {
			return rapid.MapOfNValues(rapid.Int8Range(0, 9), 0, 3, func(v int8) int8 { return v % 3 })
		}, func(m map[int8]int8) string {
			for k, v := range m {
				if k != v%3 {
					return "key is not keyFn(value)"
				}
			}
			return ""
		}),
		thrice("Permutation([1 2 3])", "coll", func() *rapid.Generator[[]int] { return rapid.Permutation([]int{1, 2, 3}) }, func(v []int) string {
			if !reflect.DeepEqual(sortedCopy(v), []int{1, 2, 3}) {
				return "not a permutation"
			}
			return ""
		}),
		thrice("Ptr(Int8(),true)", "comb", func() *rapid.Generator[*int8] { return rapid.Ptr(rapid.Int8(), true) }, nil),
		thrice("Make[[]int8]", "make coll", func() *rapid.Generator[[]int8] { return rapid.Make[[]int8]() }, nil),
		thrice("Make[map[bool]int8]", "make coll", func() *rapid.Generator[map[bool]int8] { return rapid.Make[map[bool]int8]() }, nil),
		thrice("Make[*[2]int8]", "make", func() *rapid.Generator[*[2]int8] { return rapid.Make[*[2]int8]() }, nil),
		thrice("Make[struct{A []int8; P *int8}]", "make", func() *rapid.Generator[struct {
			A []int8
			P *int8
		}] {
			return rapid.Make[struct {
				A []int8
				P *int8
			}]()
		}, nil),
		thrice("Make[*stabNode]", "make", func() *rapid.Generator[*stabNode] { return rapid.Make[*stabNode]() }, nil),
		thrice("Map(SliceOfN(Int8(),0,3),id)", "comb coll", func() *rapid.Generator[[]int8] {
			return rapid.Map(rapid.SliceOfN(rapid.Int8(), 0, 3), func(v []int8) []int8 { return v })
		}, nil),
		thrice("SliceOfN(Int8(),1,3).Filter(len>=1)", "comb coll rej", func() *rapid.Generator[[]int8] {
			return rapid.SliceOfN(rapid.Int8(), 1, 3).Filter(func(v []int8) bool { return len(v) >= 1 })
		}, nil),
		thrice("StringN(0,3,-1) as []rune via Map", "str", func() *rapid.Generator[[]rune] {
			return rapid.Map(rapid.StringN(0, 3, -1), func(s string) []rune { return []rune(s) })
		}, nil),
		thrice("SliceOfN(StringMatching(`[a-c]{2}`),1,3)", "str re coll", func() *rapid.Generator[[]string] {
			return rapid.SliceOfN(rapid.StringMatching(`[a-c]{2}`), 1, 3)
		}, func(v []string) string {
			for _, s := range v {
				if len(s) != 2 {
					return "element does not match"
				}
			}
			return ""
		}),
	)
	return ps
}
