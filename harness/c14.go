package harness

// C14 - T's non-drawing methods are safe to call from many goroutines.
// E3 on a real *T inside a real checkOnce: 2-3 controlled threads x 1-3 operations each, all on one T,
// every interleaving within the preemption bound; oracles: no happens-before race on any instrumented
// field, no deadlock, linearizable call/return history (porcupine) against a sequential model, a failure
// from any thread falsifies the case, every cleanup runs exactly once, one live context for everybody.

import (
	"context"
	"fmt"
	"strings"
	"sync/atomic"
	"time"

	"github.com/anishathalye/porcupine"
	"pgregory.net/rapid"
	"pgregory.net/rapid/verifrt/vsync"
)

type c14Op struct {
	kind string // Errorf Fail Failed Log Name Helper Context Cleanup Error
}

type c14Event struct {
	thread int
	op     string
	call   int64
	ret    int64
	out    any
	arg    int
}

type c14State struct {
	failed   bool
	cleanups int
	ctx      int
}

var c14Model = porcupine.Model{
	Init: func() interface{} { return c14State{} },
	Step: func(st, in, out interface{}) (bool, interface{}) {
		s := st.(c14State)
		ev := in.(c14Event)
		switch ev.op {
		case "Errorf", "Error", "Fail":
			s.failed = true
			return true, s
		case "Failed":
			return out.(bool) == s.failed, s
		case "Context":
			// every call returns the one context of this invocation (identified by order of first appearance)
			return out.(int) == 1, s
		case "Cleanup":
			s.cleanups++
			return true, s
		default: // Log, Name, Helper: no observable state
			return true, s
		}
	},
	Equal: func(a, b interface{}) bool { return a.(c14State) == b.(c14State) },
}

type c14Scenario struct {
	name    string
	threads [][]string
	mainOps []string // performed by the property's own goroutine while the others run
	verbose bool
	tbCtx   bool // the underlying TB has a Context() method of its own (testing.T since Go 1.24): T.Context derives from it
	late    bool // the workers are not joined by the property body but by a Cleanup function ("cleanup waits for workers")
	nested  int  // > 0: the workers are started inside a Custom generator function nested that many levels deep and call the methods of ITS T (they go on after the function has returned)
}

func c14Scenarios(quick bool) []c14Scenario {
	sc := []c14Scenario{
		{name: "Errorf|Context+Cleanup|Failed+Context", threads: [][]string{{"Errorf"}, {"Context", "Cleanup"}, {"Failed", "Context"}}},
		{name: "Errorf|Failed", threads: [][]string{{"Errorf"}, {"Failed"}}},
		{name: "Fail|Fail|Failed", threads: [][]string{{"Fail"}, {"Fail"}, {"Failed"}}},
		{name: "Context|Context|Context", threads: [][]string{{"Context"}, {"Context"}, {"Context"}}},
		{name: "Context+Context|Context", threads: [][]string{{"Context", "Context"}, {"Context"}}, mainOps: []string{"Context"}},
		{name: "Context|Context|Context on a TB that has its own Context()", threads: [][]string{{"Context"}, {"Context"}, {"Context"}}, tbCtx: true},
		{name: "Context+Cleanup|Context|main Context on a TB that has its own Context()", threads: [][]string{{"Context", "Cleanup"}, {"Context"}}, mainOps: []string{"Context"}, tbCtx: true},
		{name: "Cleanup|Cleanup|Cleanup", threads: [][]string{{"Cleanup"}, {"Cleanup"}, {"Cleanup"}}},
		{name: "Cleanup+Cleanup|Cleanup+Errorf", threads: [][]string{{"Cleanup", "Cleanup"}, {"Cleanup", "Errorf"}}},
		{name: "Log+Name+Helper|Errorf|Failed (verbose)", threads: [][]string{{"Log", "Name", "Helper"}, {"Errorf"}, {"Failed"}}, verbose: true},
		{name: "Log|Log|Error (verbose)", threads: [][]string{{"Log"}, {"Log"}, {"Error"}}, verbose: true},
		{name: "Errorf|Errorf+Failed|main draws", threads: [][]string{{"Errorf"}, {"Errorf", "Failed"}}, mainOps: []string{"Draw", "Draw"}},
		{name: "Context|Cleanup|main Context+Cleanup", threads: [][]string{{"Context"}, {"Cleanup"}}, mainOps: []string{"Context", "Cleanup"}},
		{name: "CleanupSpawns: cleanup callbacks start goroutines", threads: [][]string{{"CleanupSpawn"}, {"Context"}}},
		{name: "Failed+Failed|Fail+Failed", threads: [][]string{{"Failed", "Failed"}, {"Fail", "Failed"}}},
		{name: "Cleanup|Cleanup while the property's goroutine is inside Repeat", threads: [][]string{{"Cleanup"}, {"Cleanup", "Failed"}}, mainOps: []string{"Repeat"}},
		{name: "Errorf|Cleanup while the property's goroutine is inside Repeat", threads: [][]string{{"Errorf"}, {"Cleanup"}}, mainOps: []string{"Repeat", "Failed"}},
		{name: "late workers: Cleanup+Cleanup|Cleanup joined by a cleanup", threads: [][]string{{"Cleanup", "Cleanup"}, {"Cleanup"}}, mainOps: []string{"Cleanup", "Cleanup"}, late: true},
		{name: "late workers: Cleanup+Context|Errorf joined by a cleanup", threads: [][]string{{"Cleanup", "Context"}, {"Errorf"}}, mainOps: []string{"Cleanup"}, late: true},
		{name: "Errorf|Failed on the T of a Custom generator function", threads: [][]string{{"Errorf"}, {"Failed"}}, nested: 1},
		{name: "Errorf|Fail+Failed|Log on the T of a Custom generator function nested two deep", threads: [][]string{{"Errorf"}, {"Fail", "Failed"}, {"Log"}}, nested: 2, mainOps: []string{"Draw"}},
		{name: "Error|Failed on the T of a Custom generator function nested three deep", threads: [][]string{{"Error"}, {"Failed"}}, nested: 3},
		{name: "CleanupErrorfSpawn|Cleanup: failure from a goroutine started by a cleanup", threads: [][]string{{"CleanupErrorfSpawn"}, {"Cleanup"}}},
		{name: "CleanupErrorfSpawn|CleanupSpawn|Context", threads: [][]string{{"CleanupErrorfSpawn"}, {"CleanupSpawn"}, {"Context"}}},
	}
	if !quick {
		sc = append(sc,
			c14Scenario{name: "3x(Errorf+Context+Cleanup)", threads: [][]string{{"Errorf", "Context", "Cleanup"}, {"Errorf", "Context", "Cleanup"}, {"Errorf", "Context", "Cleanup"}}},
			c14Scenario{name: "Context|Context|Context|Context", threads: [][]string{{"Context"}, {"Context"}, {"Context"}, {"Context"}}},
			c14Scenario{name: "Failed+Errorf+Failed|Failed+Errorf+Failed", threads: [][]string{{"Failed", "Errorf", "Failed"}, {"Failed", "Errorf", "Failed"}}},
		)
	}
	return sc
}

type c14Run struct {
	events   []c14Event
	clock    int64
	ctxIDs   map[context.Context]int
	ctxLive  []bool
	cleanups map[int]int // id -> times run
	regs     int
	lateCtx  []context.Context
	lateFail bool // a goroutine started by a cleanup signalled a failure
}

func (r *c14Run) do(t *rapid.T, thread int, op string) {
	ev := c14Event{thread: thread, op: op}
	r.clock++
	ev.call = r.clock
	switch op {
	case "Errorf":
		t.Errorf("failure from thread %d", thread)
	case "Error":
		t.Error("failure from thread", thread)
	case "Fail":
		t.Fail()
	case "Failed":
		ev.out = t.Failed()
	case "Log":
		t.Logf("log from thread %d", thread)
	case "Name":
		_ = t.Name()
	case "Helper":
		t.Helper()
	case "Context":
		ctx := t.Context()
		id, ok := r.ctxIDs[ctx]
		if !ok {
			id = len(r.ctxIDs) + 1
			r.ctxIDs[ctx] = id
		}
		ev.out = id
		r.ctxLive = append(r.ctxLive, ctx.Err() == nil)
	case "Cleanup":
		r.regs++
		id := r.regs
		ev.arg = id
		t.Cleanup(func() { r.cleanups[id]++ })
	case "CleanupSpawn":
		r.regs++
		id := r.regs
		ev.arg = id
		ev.op = "Cleanup"
		t.Cleanup(func() {
			r.cleanups[id]++
			// a cleanup callback that starts goroutines which register cleanups / ask for the context
			h1 := vsync.Go(func() {
				r.regs++
				id2 := r.regs
				t.Cleanup(func() { r.cleanups[id2]++ })
			})
			h2 := vsync.Go(func() { r.lateCtx = append(r.lateCtx, t.Context()) })
			h1.Join()
			h2.Join()
		})
	case "CleanupErrorfSpawn":
		r.regs++
		id := r.regs
		ev.arg = id
		ev.op = "Cleanup"
		t.Cleanup(func() {
			r.cleanups[id]++
			// cleanup-time failure signalled from another goroutine, racing with Failed() from a second one
			h1 := vsync.Go(func() { r.lateFail = true; t.Errorf("failure from a goroutine started by cleanup %d", id) })
			h2 := vsync.Go(func() { _ = t.Failed() })
			h1.Join()
			h2.Join()
		})
	case "Repeat":
		t.Repeat(map[string]func(*rapid.T){"noop": func(*rapid.T) {}})
		ev.op = "Name"
	case "Draw":
		rapid.Bool().Draw(t, "b")
		ev.op = "Name" // no model state
	}
	r.clock++
	ev.ret = r.clock
	r.events = append(r.events, ev)
}

func c14Units(tier string, seed int64) []Unit {
	quick := tier != "thorough"
	var units []Unit
	// thorough: the preemption bound is iterated (every scenario at 4, then every scenario at 6), so that
	// a cap cuts the deeper layer only
	bounds := []int{3}
	if !quick {
		bounds = []int{4, 6}
	}
	for _, bound := range bounds {
		for _, sc := range c14Scenarios(quick) {
			sc, bound := sc, bound
			if quick && sc.nested > 0 {
				bound = 2 // every draw of a nested Custom adds scheduling points: bound 3 is left to the thorough tier
			}
			uname := "C14/" + sc.name
			if bound > 4 {
				uname += fmt.Sprintf("/preemptions<=%d", bound)
			}
			units = append(units, Unit{Name: uname, Run: func(c *Ctx) {
				d := &SchedDFS{Bound: bound, MaxSteps: 2000, MaxExecs: 400000}
				if !quick {
					d.MaxExecs = 3000000
				}
				if bound > 4 {
					d.MaxExecs = 20000000
				}
				c.R.Bounds = fmt.Sprintf("preemption bound %d", bound)
				var run *c14Run
				var res rapid.VerifResult
				tb := NewTB("C14")
				body := func() {
					run = &c14Run{ctxIDs: map[context.Context]int{}, cleanups: map[int]int{}}
					r := run
					words := []uint64{1, 0, 1, 1, 0, 0, 1, 0}
					var rtb rapid.TB = tb
					if sc.tbCtx {
						rtb = &CtxTB{FakeTB: tb}
					}
					res = rapid.VerifRunBuf(rtb, words, sc.verbose, func(t *rapid.T) {
						var hs []*vsync.Handle
						if sc.late {
							r.regs++
							id := r.regs
							t.Cleanup(func() {
								r.cleanups[id]++
								for _, h := range hs {
									h.Join()
								}
							})
						}
						spawn := func(tt *rapid.T) {
							for i, ops := range sc.threads {
								i, ops := i, ops
								hs = append(hs, vsync.Go(func() {
									for _, op := range ops {
										r.do(tt, i+1, op)
									}
								}))
							}
						}
						if sc.nested == 0 {
							spawn(t)
						}
						if !sc.late {
							// joined even when the property's own goroutine is stopped by a failure (e.g. inside Repeat)
							defer func() {
								for _, h := range hs {
									h.Join()
								}
							}()
						}
						if sc.nested > 0 {
							started := false
							g := rapid.Custom(func(it *rapid.T) int {
								v := rapid.IntRange(0, 3).Draw(it, "v")
								if !started {
									started = true
									spawn(it)
								}
								return v
							})
							for k := 1; k < sc.nested; k++ {
								inner := g
								g = rapid.Custom(func(it *rapid.T) int { return inner.Draw(it, "inner") })
							}
							g.Draw(t, "nested")
						}
						for _, op := range sc.mainOps {
							r.do(t, 0, op)
						}
					})
				}
				points := 0
				d.Explore(c, func() { tb = NewTB("C14"); tb.Quiet = !sc.verbose }, body, func(ex *vsync.Exec, choices []int) {
					points = len(ex.Points)
					r := run
					replay := map[string]any{"engine": "sched", "scenario": sc.name, "schedule": choices}
					viol := func(clause, detail string) {
						c.Violate(Violation{Sig: "C14 " + clause + " scenario=" + sc.name, Detail: detail + "\nschedule: " + scheduleString(ex), Replay: replay, Devs: preemptions(ex.Points, len(ex.Points))})
					}
					if ex.Deadlock != "" {
						viol("deadlock", ex.Deadlock)
						return
					}
					for _, rc := range racesOf(ex) {
						c.Violate(Violation{Sig: "C14 data-race " + rc, Detail: "unordered conflicting accesses: " + rc + "\nscenario " + sc.name + "\nschedule: " + scheduleString(ex), Replay: replay, Devs: preemptions(ex.Points, len(ex.Points))})
					}
					// outcome
					var outs []string
					for _, e := range r.events {
						outs = append(outs, fmt.Sprintf("%d:%s=%v", e.thread, e.op, e.out))
					}
					c.Outcome(strings.Join(outs, " ")+" "+kindName(res.Kind), len(ex.Points) > 0 && preemptions(ex.Points, len(ex.Points)) > 0)
					// linearizability
					var ops []porcupine.Operation
					for _, e := range r.events {
						ops = append(ops, porcupine.Operation{ClientId: e.thread, Input: e, Call: e.call, Output: e.out, Return: e.ret})
					}
					if !porcupine.CheckOperations(c14Model, ops) {
						viol("not-linearizable", fmt.Sprintf("call/return history has no sequential explanation: %v", outs))
					}
					// lost update: any failure signal falsifies the case
					signalled := r.lateFail
					for _, e := range r.events {
						if e.op == "Errorf" || e.op == "Error" || e.op == "Fail" {
							signalled = true
						}
					}
					if signalled && res.Kind != rapid.VerifFail {
						viol("failure-lost", "a goroutine signalled a failure but the test case ended as "+kindName(res.Kind))
					}
					if !signalled && res.Kind != rapid.VerifOK {
						viol("spurious-failure", "no failure signalled but the test case ended as "+kindName(res.Kind)+": "+res.Msg)
					}
					for id := 1; id <= r.regs; id++ {
						if r.cleanups[id] != 1 {
							viol("cleanup-count", fmt.Sprintf("cleanup %d of %d ran %d times", id, r.regs, r.cleanups[id]))
						}
					}
					if len(r.ctxIDs) > 1 && !sc.late {
						viol("two-contexts", fmt.Sprintf("%d different contexts were handed out during one invocation", len(r.ctxIDs)))
					}
					for _, live := range r.ctxLive {
						if !live && !sc.late {
							viol("dead-context", "Context() returned a cancelled context before the property returned")
						}
					}
					for ctx := range r.ctxIDs {
						// also for workers that outlive the property body (joined by a cleanup): whatever Context() gave
						// them - the invocation's context, or an already cancelled one once cleanup has begun - is over now
						if ctx.Err() == nil {
							viol("context-not-cancelled", "a context handed out during the invocation is still live after the invocation and its cleanups ended")
						}
					}
					for _, ctx := range r.lateCtx {
						if ctx.Err() == nil {
							viol("live-context-during-cleanup", "Context() requested from a goroutine started by a cleanup is live")
						}
					}
				})
				if points == 0 {
					c.R.HarnessErr = "no scheduling points seen: the sync shim (rule r3) is not active in this build"
				}
			}})
		}
	}
	nfree := 60
	if !quick {
		nfree = 600
	}
	// the conformance pass and the self-test come first: a time cap may only cut the deepest layer
	return append([]Unit{freeRunUnit("C14", nfree), litmusUnit()}, units...)
}

func init() {
	Register(&Check{
		ID:    "C14",
		Level: "model_checking",
		Rule: "E3 sched: 19 (quick) / 22 (thorough) scenarios of 2-4 controlled threads x 1-3 calls each from {Errorf, Error, Fail, Failed, Log, Name, Helper, Context, Cleanup, cleanup-that-spawns} on one real *T inside a real checkOnce (optionally while the property's own goroutine draws or calls the same methods, with and without verbose logging); " +
			"every interleaving at sync-operation granularity within the preemption bound (3 quick; thorough: every scenario at 4, then every scenario at 6). Oracles per execution: no happens-before race on any instrumented field/element/map access, no deadlock, porcupine-linearizable history, failure never lost, every cleanup exactly once, one live context. " +
			"distinct = distinct (per-call results, verdict) histories; non-trivial = the schedule contains at least one preemption.",
		Assumptions: []string{"sequentially consistent interleavings at sync-operation granularity + happens-before race freedom on instrumented accesses (DRF-SC argument); goroutines are joined before the property returns",
			"the shim's RWMutex/Once/Map/atomic.Bool semantics (writer preference, Once blocking) stand in for package sync"},
		Units:   c14Units,
		Budget:  map[string]time.Duration{"quick": 55 * time.Second, "thorough": 25 * time.Minute},
		Explain: "states = scheduling points visited, transitions = scheduler steps; each execution is a real run of rapid's code under the controlled scheduler",
	})
}

// CtxTB is a TB that has a Context method of its own, like *testing.T since Go 1.24.
type CtxTB struct {
	*FakeTB
	calls int32
}

type ctxTBKey struct{}

func (t *CtxTB) Context() context.Context {
	atomic.AddInt32(&t.calls, 1)
	return context.WithValue(context.Background(), ctxTBKey{}, "from the TB")
}
