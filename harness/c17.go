package harness

// C17 - unusable fail files are ignored and never change the verdict.
// Differential: a valid fail file written by a real failing Check is mutated (every truncation, byte
// substitutions at every offset, field-level mutations, all tiny files, other versions, directories,
// dangling symlinks, several at once); each variant is combined with a passing and a failing property
// and compared with the same seed in an empty directory.

import (
	"bytes"
	"fmt"
	"os"
	"path/filepath"
	"regexp"
	"strconv"
	"strings"
	"time"

	"pgregory.net/rapid"
)

// refParseFailFile is the reference grammar of a fail file, written independently of the loader:
// lines (LF or CRLF) are trimmed; empty lines and lines starting with '#' are comments; the first
// remaining line is "<version>#<decimal seed>" with exactly one '#'; every further line is one word
// in Go integer-literal syntax that fits in 64 bits.
func refParseFailFile(content []byte) (version string, words []uint64, ok bool) {
	var data []string
	for _, ln := range strings.Split(string(content), "\n") {
		ln = strings.TrimSpace(strings.TrimSuffix(ln, "\r"))
		if ln == "" || strings.HasPrefix(ln, "#") {
			continue
		}
		data = append(data, ln)
	}
	if len(data) == 0 {
		return "", nil, false
	}
	parts := strings.Split(data[0], "#")
	if len(parts) != 2 {
		return "", nil, false
	}
	if _, err := strconv.ParseUint(parts[1], 10, 64); err != nil {
		return "", nil, false
	}
	for _, w := range data[1:] {
		u, err := strconv.ParseUint(w, 0, 64)
		if err != nil {
			return "", nil, false
		}
		words = append(words, u)
	}
	return parts[0], words, true
}

var reIgnoring = regexp.MustCompile(`\[rapid\] (ignoring fail file|fail file .* is no longer valid)`)

type c17File struct {
	content []byte
	special string // "", dir, symlink
}

func c17Place(name string, files []c17File) {
	CleanFailFiles()
	dir, _ := rapid.VerifFailFileName(name)
	os.MkdirAll(dir, 0o775)
	for i, f := range files {
		p := filepath.Join(dir, fmt.Sprintf("%s-2020%04d-7.fail", rapid.VerifSafeFilename(name), i))
		switch f.special {
		case "dir":
			os.MkdirAll(p, 0o775)
		case "symlink":
			os.Symlink("/nonexistent/target", p)
		default:
			os.WriteFile(p, f.content, 0o644)
		}
	}
}

func c17Variants(valid []byte, quick bool) (out [][]c17File, labels []string) {
	add := func(label string, fs ...c17File) {
		out = append(out, fs)
		labels = append(labels, label)
	}
	one := func(b []byte) c17File { return c17File{content: b} }
	for n := 0; n <= len(valid); n++ {
		add(fmt.Sprintf("truncate@%d", n), one(append([]byte(nil), valid[:n]...)))
	}
	subs := []byte{0, '#', '\n', ' ', '0', 'x', 'g', '-', 0xff}
	for i := 0; i < len(valid); i++ {
		for _, s := range subs {
			if valid[i] == s {
				continue
			}
			b := append([]byte(nil), valid...)
			b[i] = s
			add(fmt.Sprintf("subst@%d=%#x", i, s), one(b))
		}
	}
	// field level
	lines := strings.Split(string(valid), "\n")
	var hdr int
	for i, l := range lines {
		if !strings.HasPrefix(l, "#") && l != "" {
			hdr = i
			break
		}
	}
	comment := strings.Join(lines[:hdr], "\n") + "\n"
	ver := rapid.VerifVersion()
	words := lines[hdr+1:]
	wj := strings.Join(words, "\n")
	for _, h := range []string{"", ver, ver + "#", "#5", ver + "#5#6", ver + "##5", ver + "#-1", ver + "#18446744073709551616", ver + "#1e3", ver + "#0x10", "v9.9.9#5", "V0.4.8#5", ver + " #5", ver + "#5 ", "\t" + ver + "#5", ver + "#5\r"} {
		add("header="+h, one([]byte(comment+h+"\n"+wj)))
	}
	for _, w := range []string{"", "18446744073709551616", "0x", "0x_1", "zz", "-1", "1.5", "0x10000000000000000", "07", "0b11", "1_0", " 5 ", "0X1F", "#", strings.Repeat("0x1\n", 100000)} {
		add("words="+trunc(w, 20), one([]byte(comment+ver+"#5\n"+w)))
		add("words+="+trunc(w, 20), one([]byte(comment+ver+"#5\n"+wj+"\n"+w)))
	}
	// a real word line with damage after the number: must make the file unusable, never be read as its numeric prefix
	if len(words) > 0 {
		for _, dmg := range []string{"zz", ",", " 0x0", " # x", "\x00", "g", "_", "x", ".5", "e3", "\t7"} {
			for wi := range words {
				ws := append([]string(nil), words...)
				ws[wi] = ws[wi] + dmg
				add(fmt.Sprintf("word[%d]+=%q", wi, dmg), one([]byte(comment+ver+"#5\n"+strings.Join(ws, "\n"))))
			}
		}
		add("words-joined-on-one-line", one([]byte(comment+ver+"#5\n"+strings.Join(words, " "))))
		add("seed-with-garbage", one([]byte(comment+ver+"#5zz\n"+wj)))
		add("version-extended", one([]byte(comment+ver+"0#5\n"+wj)), one([]byte(comment+ver+"-rc1#5\n"+wj)), one([]byte(comment+ver+".1#5\n"+wj)))
		add("version-prefix", one([]byte(comment+ver[:len(ver)-1]+"#5\n"+wj)))
	}
	add("duplicate-header", one([]byte(comment+ver+"#5\n"+ver+"#5\n"+wj)))
	add("no-comment", one([]byte(ver+"#5\n"+wj)))
	add("only-comment", one([]byte(comment)))
	add("crlf", one([]byte(strings.ReplaceAll(string(valid), "\n", "\r\n"))))
	add("trailing-newlines", one(append(append([]byte(nil), valid...), '\n', '\n', ' ', '\n')))
	add("valid", one(valid))
	add("dir", c17File{special: "dir"})
	add("symlink", c17File{special: "symlink"})
	add("binary", one([]byte{0, 1, 2, 0xff, 0xfe, '\n', 0x80}))
	add("long-line", one([]byte(strings.Repeat("9", 200000))))
	// megabytes of garbage without a single line break, and a multi-megabyte comment line in front of valid data
	add("huge-garbage-without-newline", one(bytes.Repeat([]byte("garbage "), 2<<20)))
	// over-long lines that are mostly white space: whatever the loader says about them, it says it without crashing
	add("70000-blanks", one(bytes.Repeat([]byte(" "), 70000)))
	add("header+70000-blanks", one(append([]byte(comment+ver+"#5"), bytes.Repeat([]byte(" "), 70000)...)))
	add("word+70000-blanks", one(append(append([]byte(comment+ver+"#5\n0x1"), bytes.Repeat([]byte(" "), 70000)...), []byte("\n"+wj)...)))
	add("66000-tabs-then-text", one(append(bytes.Repeat([]byte("\t"), 66000), []byte("text")...)))
	add("huge-comment-line+valid", one(append(append([]byte("# "), bytes.Repeat([]byte("L"), 8<<20)...), append([]byte("\n"), valid...)...)))
	// comment lines longer than any buffer a loader may read them in, whose text from a buffer boundary on looks like a
	// header or a word line: a comment is a comment to its end, wherever it is cut while reading
	for _, B := range []int{4096, 65536, 131072} {
		for _, tail := range []string{"0xffffffffffff", ver + "#9", "0x0", "zz", "# 0x5"} {
			for d := -1; d <= 1; d++ {
				long := "# " + strings.Repeat("L", B+d-2) + tail
				add(fmt.Sprintf("long-comment(%d%+d)+%q/before-header", B, d, tail), one([]byte(long+"\n"+comment+ver+"#5\n"+wj)))
				add(fmt.Sprintf("long-comment(%d%+d)+%q/before-words", B, d, tail), one([]byte(comment+ver+"#5\n"+long+"\n"+wj)))
				add(fmt.Sprintf("long-comment(%d%+d)+%q/after-words", B, d, tail), one([]byte(comment+ver+"#5\n"+wj+"\n"+long+"\n")))
			}
		}
	}
	// several at once
	add("garbage+valid", one([]byte("garbage")), one(valid))
	add("valid+garbage", one(valid), one([]byte("garbage")))
	add("dir+symlink+empty", c17File{special: "dir"}, c17File{special: "symlink"}, one(nil))
	add("oldversion+truncated+valid", one([]byte(comment+"v0.0.1#5\n"+wj)), one(valid[:len(valid)/2]), one(valid))
	// all tiny files
	alpha := []byte{'#', 'v', '0', 'x', '1', '\n', ' '}
	maxLen := 4
	if !quick {
		maxLen = 5
	}
	var rec func(cur []byte)
	rec = func(cur []byte) {
		if len(cur) > 0 {
			add(fmt.Sprintf("tiny=%q", cur), one(append([]byte(nil), cur...)))
		}
		if len(cur) == maxLen {
			return
		}
		for _, a := range alpha {
			rec(append(cur, a))
		}
	}
	rec(nil)
	return
}

func c17Units(tier string, seed int64) []Unit {
	quick := tier != "thorough"
	var units []Unit
	name := "TestC17"
	// the valid file: written by a real failing Check
	mkValid := func(seedv uint64) []byte {
		CleanFailFiles()
		p := progThreshold(100)
		log := RunCheck(p, NewEnv(nil, p.Base), Config{Checks: 20, Seed: seedv, ShrinkMS: -1, Name: name})
		for _, k := range sortedKeys(log.Files) {
			// package log stamps the captured output with the wall clock; a fixed stamp keeps the variant
			// list (and therefore the sharding and every replay) identical from process to process
			return []byte(reCommentStamp.ReplaceAllString(log.Files[k], "# 2026/01/02 03:04:05.000000 "))
		}
		return nil
	}
	const shards = 48
	for _, mode := range []string{"false", "true", "skips-the-stored-case"} {
		for sh := 0; sh < shards; sh++ {
			mode, sh := mode, sh
			failing := mode == "true"
			units = append(units, Unit{Name: fmt.Sprintf("C17/failing-property=%v/shard=%d", mode, sh), Run: func(c *Ctx) {
				valid := mkValid(7)
				if len(valid) == 0 || len(valid) > 400 {
					c.R.HarnessErr = fmt.Sprintf("could not produce a small valid fail file (%d bytes)", len(valid))
					return
				}
				variants, labels := c17Variants(valid, quick)
				prog := progThreshold(100)
				if mode == "false" {
					prog = progThreshold(32767)
					prog.Base = func(string, string) Beh { return BPass }
				}
				if mode == "skips-the-stored-case" {
					// the bug was "fixed" by making the property skip the inputs it used to fail on: the stored case is now
					// invalid, not failing - the file is stale and must be ignored like one whose case passes
					base := prog.Base
					prog.Base = func(ctx, d string) Beh {
						if base(ctx, d) != BPass {
							return BSkip
						}
						return BPass
					}
				}
				sd := uint64(seed)*17 + 4242
				cfg := Config{Checks: 4, Seed: sd, ShrinkMS: 3, NoFailFile: true, Name: name}
				CleanFailFiles()
				ref := RunCheck(prog, NewEnv(nil, prog.Base), cfg)
				refV := ref.Verdict()
				refInv := invTranscript(ref.Env.Invs)
				for vi := sh; vi < len(variants); vi += shards {
					if c.Expired() {
						c.Cap("time budget")
						return
					}
					files := variants[vi]
					c17Place(name, files)
					env := NewEnv(nil, prog.Base)
					log := RunCheck(prog, env, cfg)
					c.R.Evals++
					c.R.States++
					c.R.Transitions += int64(len(env.Invs))
					v := log.Verdict()
					replay := map[string]any{"variant": labels[vi], "failing_property": mode, "seed": sd}
					if len(files) == 1 && files[0].special == "" && len(files[0].content) < 600 {
						replay["file"] = string(files[0].content)
					}
					viol := func(clause, detail string) {
						c.Violate(Violation{Sig: "C17 " + clause, Detail: fmt.Sprintf("%s\nvariant %s, failing property=%v\nTB: %s %q\nlog: %s", detail, labels[vi], mode, v.Class, trunc(v.ErrText, 200), trunc(log.TB.LogText(), 500)), Replay: replay})
					}
					if log.Escaped != nil {
						viol("escaped-panic", fmt.Sprintf("Check crashed: %v", log.Escaped))
						continue
					}
					nIgn := len(reIgnoring.FindAllString(log.TB.LogText(), -1))
					// "ignored with a log line": a line, not a dump of the file
					if lt := log.TB.LogText(); len(lt) > 1<<20 {
						viol("log-dumps-the-unusable-file", fmt.Sprintf("the run logged %d bytes for %d file(s) that could not be used", len(lt), len(files)))
					}
					k := 0
					if len(env.Seeds) > 0 {
						k = env.Seeds[0].InvIdx
					}
					accepted := (v.Class == "failed" || v.Class == "panic") && v.After == 0 && len(env.Seeds) == 0
					c.Outcome(fmt.Sprintf("%s accepted=%v ignored-lines=%d file-invocations=%d", v.Class, accepted, nIgn, k), true)
					if accepted {
						if !failing {
							viol("passing-property-failed-by-file", "a fail file made a never-failing property fail")
							continue
						}
						last := env.Invs[len(env.Invs)-1]
						if !last.Falsified() {
							viol("accepted-file-does-not-falsify", "the file was accepted but the presented case does not fail")
						}
						// which file was used? the one the message names; it must be a usable file by the reference grammar
						for i, f := range files {
							if f.special != "" || !strings.Contains(v.FailFile, fmt.Sprintf("-2020%04d-7.fail", i)) {
								continue
							}
							ver, refWords, okp := refParseFailFile(f.content)
							if !okp || ver != rapid.VerifVersion() {
								viol("malformed-file-used", fmt.Sprintf("file #%d is not a well-formed fail file of this version by the reference grammar (version %q, well-formed=%v), yet it was replayed and reported", i, ver, okp))
							} else if len(env.Bufs) > 0 && !equalWords(env.Bufs[0], refWords) {
								viol("file-replayed-with-other-words", fmt.Sprintf("file #%d holds the words %s by the reference grammar, the replay used %s", i, fmtWords(refWords), fmtWords(env.Bufs[0])))
							}
						}
						continue
					}
					// ignored: the rest of the run must be exactly the empty-directory run
					rest := invTranscript(env.Invs[min(k, len(env.Invs)):])
					if rest != refInv {
						viol("random-cases-changed", fmt.Sprintf("test cases after the fail-file phase differ from the empty-directory run:\n%s\nvs\n%s", trunc(rest, 300), trunc(refInv, 300)))
					}
					if v.Class != refV.Class || v.After != refV.After || log.TB.IsFail != ref.TB.IsFail {
						viol("verdict-changed", fmt.Sprintf("empty directory: %s after %d failed=%v; with the file: %s after %d failed=%v", refV.Class, refV.After, ref.TB.IsFail, v.Class, v.After, log.TB.IsFail))
					}
					if nIgn != len(files) {
						why := "other"
						if k > 0 {
							why = "case-now-passes-or-invalid"
						}
						viol("no-log-line-for-ignored-file why="+why, fmt.Sprintf("%d file(s) present and not used, %d 'ignoring'/'no longer valid' log line(s)", len(files), nIgn))
					}
				}
				CleanFailFiles()
			}})
		}
	}
	return units
}

func init() {
	Register(&Check{
		ID:    "C17",
		Level: "model_checking",
		Rule: "every truncation and 9 byte substitutions at every offset of a real fail file, ~50 field-level mutations (version, '#' count, seed and word syntax, huge numbers, 10^5 words), all files of length <=4 (quick) / <=5 (thorough) over {#,v,0,x,1,newline,space}, " +
			"directory / dangling symlink with a matching name, 2-3 files at once; each x {never-failing, failing} property; compared with the same seed in an empty directory. " +
			"Oracle: no crash; either ignored (remaining test cases and verdict identical to the empty-directory run, one log line per unused file) or accepted with a presented case that genuinely fails. distinct = distinct (class, accepted, #log lines, #file invocations) per unit; all cases non-trivial (a file is present).",
		Assumptions: []string{"running as root: permission-denied files cannot be produced; unreadable is represented by a directory and a dangling symlink"},
		Units:       c17Units,
		Budget:      map[string]time.Duration{"quick": 50 * time.Second, "thorough": 15 * time.Minute},
	})
}
