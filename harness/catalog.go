package harness

// The generator catalogue: every public constructor of rapid, with parameters
// at the extremes named in C03, each with an *independent* contract predicate.
// Programs are built fresh per unit (New), so no generator value is shared.

import (
	"fmt"
	"math"
	"reflect"
	"regexp"
	"sort"
	"strings"
	"sync/atomic"
	"unicode"
	"unicode/utf8"

	"pgregory.net/rapid"
)

// Rec is what a catalogue program reports about one invocation.
type Rec struct {
	Draws []string
	Bad   string // first contract violation, "" if none
}

func (r *Rec) bad(format string, args ...any) {
	if r.Bad == "" {
		r.Bad = fmt.Sprintf(format, args...)
	}
}

// Prog is a catalogue entry. Tags: "rej" = can reject/retry (C04), "wide" = wide draws.
type Prog struct {
	Name string
	Tags string
	New  func() func(t *rapid.T, r *Rec)
}

func (p Prog) Has(tag string) bool { return strings.Contains(" "+p.Tags+" ", " "+tag+" ") }

// Render renders a drawn value canonically (floats bit-exact, pointers by pointee, maps sorted).
func Render(v any) string {
	if v == nil {
		return "nil"
	}
	return renderV(reflect.ValueOf(v))
}

func renderV(rv reflect.Value) string {
	switch rv.Kind() {
	case reflect.Float64:
		return fmt.Sprintf("f64:%016x", math.Float64bits(rv.Float()))
	case reflect.Float32:
		return fmt.Sprintf("f32:%08x", math.Float32bits(float32(rv.Float())))
	case reflect.String:
		return fmt.Sprintf("%q", rv.String())
	case reflect.Pointer:
		if rv.IsNil() {
			return "nil"
		}
		return "&" + renderV(rv.Elem())
	case reflect.Interface:
		if rv.IsNil() {
			return "nil"
		}
		return renderV(rv.Elem())
	case reflect.Slice, reflect.Array:
		if rv.Kind() == reflect.Slice && rv.IsNil() {
			return rv.Type().String() + "(nil)"
		}
		parts := make([]string, rv.Len())
		for i := range parts {
			parts[i] = renderV(rv.Index(i))
		}
		return rv.Type().String() + "[" + strings.Join(parts, " ") + "]"
	case reflect.Map:
		if rv.IsNil() {
			return rv.Type().String() + "(nil)"
		}
		var parts []string
		it := rv.MapRange()
		for it.Next() {
			parts = append(parts, renderV(it.Key())+":"+renderV(it.Value()))
		}
		sort.Strings(parts)
		return rv.Type().String() + "{" + strings.Join(parts, " ") + "}"
	case reflect.Struct:
		var parts []string
		for i := 0; i < rv.NumField(); i++ {
			parts = append(parts, renderV(rv.Field(i)))
		}
		return rv.Type().String() + "{" + strings.Join(parts, " ") + "}"
	case reflect.Bool:
		return fmt.Sprint(rv.Bool())
	case reflect.Int, reflect.Int8, reflect.Int16, reflect.Int32, reflect.Int64:
		return fmt.Sprint(rv.Int())
	case reflect.Uint, reflect.Uint8, reflect.Uint16, reflect.Uint32, reflect.Uint64, reflect.Uintptr:
		return fmt.Sprint(rv.Uint())
	}
	return fmt.Sprintf("%#v", rv)
}

func one[V any](name, tags string, mk func() *rapid.Generator[V], contract func(v V) string) Prog {
	return Prog{Name: name, Tags: tags, New: func() func(t *rapid.T, r *Rec) {
		g := mk()
		return func(t *rapid.T, r *Rec) {
			v := g.Draw(t, "v")
			r.Draws = append(r.Draws, Render(v))
			if contract != nil {
				if msg := contract(v); msg != "" {
					r.bad("%s: %s (value %s)", name, msg, Render(v))
				}
			}
		}
	}}
}

type signedInt interface {
	~int | ~int8 | ~int16 | ~int32 | ~int64
}
type unsignedInt interface {
	~uint | ~uint8 | ~uint16 | ~uint32 | ~uint64 | ~uintptr
}

func inS[I signedInt](lo, hi I) func(I) string {
	return func(v I) string {
		if v < lo || v > hi {
			return fmt.Sprintf("out of [%d, %d]", lo, hi)
		}
		return ""
	}
}
func inU[I unsignedInt](lo, hi I) func(I) string {
	return func(v I) string {
		if v < lo || v > hi {
			return fmt.Sprintf("out of [%d, %d]", lo, hi)
		}
		return ""
	}
}

func sRanges[I signedInt](kind string, min, max I, rng func(I, I) *rapid.Generator[I], gmin func(I) *rapid.Generator[I], gmax func(I) *rapid.Generator[I], full func() *rapid.Generator[I]) []Prog {
	var ps []Prog
	add := func(lo, hi I) {
		ps = append(ps, one(fmt.Sprintf("%sRange(%d,%d)", kind, lo, hi), "int", func() *rapid.Generator[I] { return rng(lo, hi) }, inS(lo, hi)))
	}
	add(min, min)
	add(min, min+1)
	add(max-1, max)
	add(max, max)
	add(-1, 1)
	add(0, 0)
	add(min, max)
	add(min, 0)
	add(0, max)
	add(min+1, -1)
	add(-3, 5)
	half := max/2 + 1 // 2^(w-2)
	add(half-1, half+1)
	add(-half-1, -half+1)
	ps = append(ps,
		one(kind+"()", "int", full, inS(min, max)),
		one(fmt.Sprintf("%sMin(%d)", kind, max-1), "int", func() *rapid.Generator[I] { return gmin(max - 1) }, inS(max-1, max)),
		one(fmt.Sprintf("%sMin(%d)", kind, min), "int", func() *rapid.Generator[I] { return gmin(min) }, inS(min, max)),
		one(fmt.Sprintf("%sMax(%d)", kind, min+1), "int", func() *rapid.Generator[I] { return gmax(min + 1) }, inS(min, min+1)),
		one(fmt.Sprintf("%sMax(%d)", kind, max), "int", func() *rapid.Generator[I] { return gmax(max) }, inS(min, max)),
		one(fmt.Sprintf("%sMin(-2)", kind), "int", func() *rapid.Generator[I] { return gmin(-2) }, inS(-2, max)),
		// one-element domains through the shorthand constructors
		one(fmt.Sprintf("%sMax(%d)", kind, min), "int", func() *rapid.Generator[I] { return gmax(min) }, inS(min, min)),
		one(fmt.Sprintf("%sMin(%d)", kind, max), "int", func() *rapid.Generator[I] { return gmin(max) }, inS(max, max)),
		one(fmt.Sprintf("%sMax(0)", kind), "int", func() *rapid.Generator[I] { return gmax(0) }, inS(min, 0)),
		one(fmt.Sprintf("%sMin(0)", kind), "int", func() *rapid.Generator[I] { return gmin(0) }, inS(0, max)),
	)
	return ps
}

func uRanges[I unsignedInt](kind string, max I, rng func(I, I) *rapid.Generator[I], gmin func(I) *rapid.Generator[I], gmax func(I) *rapid.Generator[I], full func() *rapid.Generator[I]) []Prog {
	var ps []Prog
	add := func(lo, hi I) {
		ps = append(ps, one(fmt.Sprintf("%sRange(%d,%d)", kind, lo, hi), "int", func() *rapid.Generator[I] { return rng(lo, hi) }, inU(lo, hi)))
	}
	add(0, 0)
	add(0, 1)
	add(max-1, max)
	add(max, max)
	add(0, max)
	add(1, max)
	add(3, 9)
	half := max/2 + 1
	add(half-1, half+1)
	add(half, max)
	ps = append(ps,
		one(kind+"()", "int", full, inU(0, max)),
		one(fmt.Sprintf("%sMin(%d)", kind, max-1), "int", func() *rapid.Generator[I] { return gmin(max - 1) }, inU(max-1, max)),
		one(fmt.Sprintf("%sMax(1)", kind), "int", func() *rapid.Generator[I] { return gmax(1) }, inU[I](0, 1)),
		one(fmt.Sprintf("%sMax(%d)", kind, max), "int", func() *rapid.Generator[I] { return gmax(max) }, inU(0, max)),
		one(fmt.Sprintf("%sMax(0)", kind), "int", func() *rapid.Generator[I] { return gmax(0) }, inU[I](0, 0)),
		one(fmt.Sprintf("%sMin(%d)", kind, max), "int", func() *rapid.Generator[I] { return gmin(max) }, inU(max, max)),
		one(fmt.Sprintf("%sMin(0)", kind), "int", func() *rapid.Generator[I] { return gmin(0) }, inU(0, max)),
	)
	return ps
}

func IntegerProgs() []Prog {
	var ps []Prog
	ps = append(ps, sRanges("Int", math.MinInt, math.MaxInt, rapid.IntRange, rapid.IntMin, rapid.IntMax, rapid.Int)...)
	ps = append(ps, sRanges[int8]("Int8", math.MinInt8, math.MaxInt8, rapid.Int8Range, rapid.Int8Min, rapid.Int8Max, rapid.Int8)...)
	ps = append(ps, sRanges[int16]("Int16", math.MinInt16, math.MaxInt16, rapid.Int16Range, rapid.Int16Min, rapid.Int16Max, rapid.Int16)...)
	ps = append(ps, sRanges[int32]("Int32", math.MinInt32, math.MaxInt32, rapid.Int32Range, rapid.Int32Min, rapid.Int32Max, rapid.Int32)...)
	ps = append(ps, sRanges[int64]("Int64", math.MinInt64, math.MaxInt64, rapid.Int64Range, rapid.Int64Min, rapid.Int64Max, rapid.Int64)...)
	ps = append(ps, uRanges[uint]("Uint", math.MaxUint, rapid.UintRange, rapid.UintMin, rapid.UintMax, rapid.Uint)...)
	ps = append(ps, uRanges[uint8]("Uint8", math.MaxUint8, rapid.Uint8Range, rapid.Uint8Min, rapid.Uint8Max, rapid.Uint8)...)
	ps = append(ps, uRanges[byte]("Byte", math.MaxUint8, rapid.ByteRange, rapid.ByteMin, rapid.ByteMax, rapid.Byte)...)
	ps = append(ps, uRanges[uint16]("Uint16", math.MaxUint16, rapid.Uint16Range, rapid.Uint16Min, rapid.Uint16Max, rapid.Uint16)...)
	ps = append(ps, uRanges[uint32]("Uint32", math.MaxUint32, rapid.Uint32Range, rapid.Uint32Min, rapid.Uint32Max, rapid.Uint32)...)
	ps = append(ps, uRanges[uint64]("Uint64", math.MaxUint64, rapid.Uint64Range, rapid.Uint64Min, rapid.Uint64Max, rapid.Uint64)...)
	ps = append(ps, uRanges[uintptr]("Uintptr", math.MaxUint64, rapid.UintptrRange, rapid.UintptrMin, rapid.UintptrMax, rapid.Uintptr)...)
	ps = append(ps, one("Bool()", "int", rapid.Bool, nil))
	return ps
}

func f64c(lo, hi float64) func(float64) string {
	return func(v float64) string {
		if v != v {
			return "NaN"
		}
		if v < lo || v > hi {
			return fmt.Sprintf("out of [%g, %g]", lo, hi)
		}
		if math.IsInf(v, 0) && !(math.IsInf(lo, 0) && v == lo) && !(math.IsInf(hi, 0) && v == hi) {
			return "infinite although the bound on that side is finite"
		}
		return ""
	}
}
func f32c(lo, hi float32) func(float32) string {
	return func(v float32) string {
		if v != v {
			return "NaN"
		}
		if v < lo || v > hi {
			return fmt.Sprintf("out of [%g, %g]", lo, hi)
		}
		if math.IsInf(float64(v), 0) && !(math.IsInf(float64(lo), 0) && v == lo) && !(math.IsInf(float64(hi), 0) && v == hi) {
			return "infinite although the bound on that side is finite"
		}
		return ""
	}
}

func FloatProgs() []Prog {
	var ps []Prog
	inf := math.Inf(1)
	den := math.SmallestNonzeroFloat64
	add64 := func(lo, hi float64) {
		ps = append(ps, one(fmt.Sprintf("Float64Range(%g,%g)", lo, hi), "float", func() *rapid.Generator[float64] { return rapid.Float64Range(lo, hi) }, f64c(lo, hi)))
	}
	negz := math.Copysign(0, -1)
	add64(0, 0)
	add64(negz, 0)
	add64(negz, negz)
	add64(0, den)
	add64(-den, den)
	add64(den, den)
	add64(1, math.Nextafter(1, 2))
	add64(math.Nextafter(1, 0), 1)
	add64(-inf, inf)
	add64(-inf, 0)
	add64(0, inf)
	add64(math.MaxFloat64, inf)
	add64(-inf, -math.MaxFloat64)
	add64(inf, inf)
	add64(-inf, -inf)
	add64(-math.MaxFloat64, math.MaxFloat64)
	add64(0.5, 1.5)
	add64(-1.5, -0.5)
	add64(1e-310, 1e-300)
	add64(3, 3)
	add64(-1, 1)
	add64(1023.5, 1024.5)
	add64(0.1, 0.3)
	add64(4503599627370496, 4503599627370500) // 2^52: no fractional bits
	ps = append(ps,
		one("Float64()", "float", rapid.Float64, f64c(-math.MaxFloat64, math.MaxFloat64)),
		one("Float64Min(-1)", "float", func() *rapid.Generator[float64] { return rapid.Float64Min(-1) }, f64c(-1, math.MaxFloat64)),
		one("Float64Max(1e300)", "float", func() *rapid.Generator[float64] { return rapid.Float64Max(1e300) }, f64c(-math.MaxFloat64, 1e300)),
		one("Float64Max(-1e300)", "float", func() *rapid.Generator[float64] { return rapid.Float64Max(-1e300) }, f64c(-math.MaxFloat64, -1e300)),
		one("Float64Max(-MaxFloat64)", "float", func() *rapid.Generator[float64] { return rapid.Float64Max(-math.MaxFloat64) }, f64c(-math.MaxFloat64, -math.MaxFloat64)),
		one("Float64Min(MaxFloat64)", "float", func() *rapid.Generator[float64] { return rapid.Float64Min(math.MaxFloat64) }, f64c(math.MaxFloat64, math.MaxFloat64)),
		one("Float64Min(1e300)", "float", func() *rapid.Generator[float64] { return rapid.Float64Min(1e300) }, f64c(1e300, math.MaxFloat64)),
		one("Float32Max(-MaxFloat32)", "float", func() *rapid.Generator[float32] { return rapid.Float32Max(-math.MaxFloat32) }, f32c(-math.MaxFloat32, -math.MaxFloat32)),
		one("Float32Min(MaxFloat32)", "float", func() *rapid.Generator[float32] { return rapid.Float32Min(math.MaxFloat32) }, f32c(math.MaxFloat32, math.MaxFloat32)),
	)
	inf32 := float32(math.Inf(1))
	den32 := float32(math.SmallestNonzeroFloat32)
	add32 := func(lo, hi float32) {
		ps = append(ps, one(fmt.Sprintf("Float32Range(%g,%g)", lo, hi), "float", func() *rapid.Generator[float32] { return rapid.Float32Range(lo, hi) }, f32c(lo, hi)))
	}
	add32(0, 0)
	add32(0, den32)
	add32(-den32, den32)
	add32(1, math.Nextafter32(1, 2))
	add32(-inf32, inf32)
	add32(math.MaxFloat32, inf32)
	add32(-inf32, -math.MaxFloat32)
	add32(-math.MaxFloat32, math.MaxFloat32)
	add32(0.5, 1.5)
	add32(-1, 1)
	add32(7, 7)
	add32(8388608, 8388612) // 2^23
	ps = append(ps,
		one("Float32()", "float", rapid.Float32, f32c(-math.MaxFloat32, math.MaxFloat32)),
		one("Float32Min(2)", "float", func() *rapid.Generator[float32] { return rapid.Float32Min(2) }, f32c(2, math.MaxFloat32)),
		one("Float32Max(-2)", "float", func() *rapid.Generator[float32] { return rapid.Float32Max(-2) }, f32c(-math.MaxFloat32, -2)),
	)
	return ps
}

func lenIn(n, lo, hi int) string {
	if lo >= 0 && n < lo {
		return fmt.Sprintf("length %d < min %d", n, lo)
	}
	if hi >= 0 && n > hi {
		return fmt.Sprintf("length %d > max %d", n, hi)
	}
	return ""
}

func distinctInts(s []int) string {
	seen := map[int]bool{}
	for _, x := range s {
		if seen[x] {
			return fmt.Sprintf("duplicate key %d", x)
		}
		seen[x] = true
	}
	return ""
}

func allIn(s []int, lo, hi int) string {
	for _, x := range s {
		if x < lo || x > hi {
			return fmt.Sprintf("element %d out of [%d,%d]", x, lo, hi)
		}
	}
	return ""
}

func first(msgs ...string) string {
	for _, m := range msgs {
		if m != "" {
			return m
		}
	}
	return ""
}

func sortedCopy(s []int) []int {
	c := append([]int(nil), s...)
	sort.Ints(c)
	return c
}

func strContract(minR, maxR, maxLen int, ok func(r rune) bool) func(string) string {
	return func(s string) string {
		if !utf8.ValidString(s) {
			return "invalid UTF-8"
		}
		if m := lenIn(utf8.RuneCountInString(s), minR, maxR); m != "" {
			return "rune " + m
		}
		if maxLen >= 0 && len(s) > maxLen {
			return fmt.Sprintf("byte length %d > maxLen %d", len(s), maxLen)
		}
		if ok != nil {
			for _, r := range s {
				if !ok(r) {
					return fmt.Sprintf("rune %q not produced by the element generator", r)
				}
			}
		}
		return ""
	}
}

type tree struct {
	Val   int8
	Left  *tree
	Right *tree
}

func (t *tree) depth() int {
	if t == nil {
		return 0
	}
	l, r := t.Left.depth(), t.Right.depth()
	if l > r {
		return l + 1
	}
	return r + 1
}

func renderTree(t *tree) string {
	if t == nil {
		return "."
	}
	return fmt.Sprintf("(%d %s %s)", t.Val, renderTree(t.Left), renderTree(t.Right))
}

type made struct {
	A int8
	B bool
	C [2]uint8
	D []int16
	E map[uint8]bool
	F *int32
	G string
	H myKind
	I float32
}
type myKind uint16

type (
	nBool   bool
	nInt8   int8
	nString string
	nPtr    *int8
	nPtrPtr *nPtr
	nArr    [2]nInt8
	nSlice  []nBool
	nMap    map[nString]nSlice
	nStruct struct {
		P nPtr
		Q *nPtr
		R []nPtr
		M map[nInt8]nPtr
		A [1]nPtrPtr
	}
	nScalars struct {
		B  nBool
		I  nInt8
		U  nUintptr
		F  nFloat32
		G  nFloat64
		S  nString
		I6 nInt64
		U6 nUint64
	}
	nUintptr uintptr
	nFloat32 float32
	nFloat64 float64
	nInt64   int64
	nUint64  uint64
)

func CollectionProgs() []Prog {
	id := rapid.ID[int]
	ps := []Prog{
		one("SliceOf(IntRange(0,2))", "coll", func() *rapid.Generator[[]int] { return rapid.SliceOf(rapid.IntRange(0, 2)) },
			func(s []int) string { return allIn(s, 0, 2) }),
		one("SliceOfN(IntRange(0,2),2,2)", "coll", func() *rapid.Generator[[]int] { return rapid.SliceOfN(rapid.IntRange(0, 2), 2, 2) },
			func(s []int) string { return first(lenIn(len(s), 2, 2), allIn(s, 0, 2)) }),
		one("SliceOfN(Int8(),0,0)", "coll", func() *rapid.Generator[[]int8] { return rapid.SliceOfN(rapid.Int8(), 0, 0) },
			func(s []int8) string { return lenIn(len(s), 0, 0) }),
		one("SliceOfN(Bool(),-1,3)", "coll", func() *rapid.Generator[[]bool] { return rapid.SliceOfN(rapid.Bool(), -1, 3) },
			func(s []bool) string { return lenIn(len(s), -1, 3) }),
		one("SliceOfN(Just(7),3,-1)", "coll", func() *rapid.Generator[[]int] { return rapid.SliceOfN(rapid.Just(7), 3, -1) },
			func(s []int) string { return first(lenIn(len(s), 3, -1), allIn(s, 7, 7)) }),
		// "negative means no limit" is not only -1
		one("SliceOfN(IntRange(0,2),-3,-2)", "coll", func() *rapid.Generator[[]int] { return rapid.SliceOfN(rapid.IntRange(0, 2), -3, -2) },
			func(s []int) string { return allIn(s, 0, 2) }),
		one("SliceOfNDistinct(IntRange(0,2),2,-2)", "coll rej", func() *rapid.Generator[[]int] { return rapid.SliceOfNDistinct(rapid.IntRange(0, 2), 2, -2, id) },
			func(s []int) string { return first(lenIn(len(s), 2, -1), allIn(s, 0, 2), distinctInts(s)) }),
		one("SliceOfNDistinct(IntRange(0,2),-7,-5)", "coll rej", func() *rapid.Generator[[]int] { return rapid.SliceOfNDistinct(rapid.IntRange(0, 2), -7, -5, id) },
			func(s []int) string { return first(allIn(s, 0, 2), distinctInts(s)) }),
		one("MapOfN(IntRange(0,2),Bool(),1,-4)", "coll rej", func() *rapid.Generator[map[int]bool] { return rapid.MapOfN(rapid.IntRange(0, 2), rapid.Bool(), 1, -4) },
			func(m map[int]bool) string { return lenIn(len(m), 1, 3) }),
		one("MapOfNValues(IntRange(0,5),-2,-3,mod2)", "coll rej", func() *rapid.Generator[map[int]int] {
			return rapid.MapOfNValues(rapid.IntRange(0, 5), -2, -3, func(v int) int { return v % 2 })
		}, func(m map[int]int) string {
			for k, v := range m {
				if v%2 != k {
					return "key is not keyFn(value)"
				}
			}
			return lenIn(len(m), -1, 2)
		}),
		one("SliceOfDistinct(IntRange(0,2))", "coll rej", func() *rapid.Generator[[]int] { return rapid.SliceOfDistinct(rapid.IntRange(0, 2), id) },
			func(s []int) string { return first(allIn(s, 0, 2), distinctInts(s)) }),
		one("SliceOfDistinct(Just(1))", "coll rej", func() *rapid.Generator[[]int] { return rapid.SliceOfDistinct(rapid.Just(1), id) },
			func(s []int) string { return first(allIn(s, 1, 1), distinctInts(s)) }),
		one("SliceOfNDistinct(IntRange(0,3),2,4)", "coll rej", func() *rapid.Generator[[]int] { return rapid.SliceOfNDistinct(rapid.IntRange(0, 3), 2, 4, id) },
			func(s []int) string { return first(lenIn(len(s), 2, 4), allIn(s, 0, 3), distinctInts(s)) }),
		one("SliceOfNDistinct(IntRange(0,1),2,2)", "coll rej", func() *rapid.Generator[[]int] { return rapid.SliceOfNDistinct(rapid.IntRange(0, 1), 2, 2, id) },
			func(s []int) string { return first(lenIn(len(s), 2, 2), allIn(s, 0, 1), distinctInts(s)) }),
		one("SliceOfNDistinct(IntRange(0,1),3,3)", "coll rej", func() *rapid.Generator[[]int] { return rapid.SliceOfNDistinct(rapid.IntRange(0, 1), 3, 3, id) },
			func(s []int) string { return "contract unsatisfiable: must be rejected, got a value" }),
		one("SliceOfNDistinct(IntRange(0,9),key=mod3,-1,-1)", "coll rej", func() *rapid.Generator[[]int] {
			return rapid.SliceOfDistinct(rapid.IntRange(0, 9), func(i int) int { return i % 3 })
		}, func(s []int) string {
			m := make([]int, len(s))
			for i, x := range s {
				m[i] = x % 3
			}
			return first(allIn(s, 0, 9), distinctInts(m))
		}),
		one("MapOf(Bool(),Int8())", "coll rej", func() *rapid.Generator[map[bool]int8] { return rapid.MapOf(rapid.Bool(), rapid.Int8()) },
			func(m map[bool]int8) string { return lenIn(len(m), -1, 2) }),
		one("MapOfN(IntRange(0,1),Bool(),1,2)", "coll rej", func() *rapid.Generator[map[int]bool] { return rapid.MapOfN(rapid.IntRange(0, 1), rapid.Bool(), 1, 2) },
			func(m map[int]bool) string {
				for k := range m {
					if k < 0 || k > 1 {
						return fmt.Sprintf("key %d out of range", k)
					}
				}
				return lenIn(len(m), 1, 2)
			}),
		one("MapOfN(Just(0),Bool(),2,2)", "coll rej", func() *rapid.Generator[map[int]bool] { return rapid.MapOfN(rapid.Just(0), rapid.Bool(), 2, 2) },
			func(m map[int]bool) string { return "contract unsatisfiable: must be rejected, got a value" }),
		one("MapOfN(Uint8(),Bool(),0,0)", "coll", func() *rapid.Generator[map[uint8]bool] { return rapid.MapOfN(rapid.Uint8(), rapid.Bool(), 0, 0) },
			func(m map[uint8]bool) string { return lenIn(len(m), 0, 0) }),
		one("MapOfValues(IntRange(0,5),mod2)", "coll rej", func() *rapid.Generator[map[int]int] {
			return rapid.MapOfValues(rapid.IntRange(0, 5), func(v int) int { return v % 2 })
		}, func(m map[int]int) string {
			for k, v := range m {
				if v%2 != k || v < 0 || v > 5 {
					return fmt.Sprintf("entry %d:%d violates key function/range", k, v)
				}
			}
			return lenIn(len(m), -1, 2)
		}),
		one("MapOfNValues(IntRange(0,5),1,2,mod2)", "coll rej", func() *rapid.Generator[map[int]int] {
			return rapid.MapOfNValues(rapid.IntRange(0, 5), 1, 2, func(v int) int { return v % 2 })
		}, func(m map[int]int) string {
			for k, v := range m {
				if v%2 != k || v < 0 || v > 5 {
					return fmt.Sprintf("entry %d:%d violates key function/range", k, v)
				}
			}
			return lenIn(len(m), 1, 2)
		}),
	}
	// Permutation: result is a permutation of the input; the input is unmodified.
	for n := 0; n <= 4; n++ {
		n := n
		ps = append(ps, Prog{Name: fmt.Sprintf("Permutation(%d)", n), Tags: "coll", New: func() func(t *rapid.T, r *Rec) {
			in := make([]int, n)
			for i := range in {
				in[i] = i * 10
			}
			orig := append([]int(nil), in...)
			g := rapid.Permutation(in)
			return func(t *rapid.T, r *Rec) {
				v := g.Draw(t, "p")
				r.Draws = append(r.Draws, Render(v))
				// the test code owns the drawn slice: modifying it in place must not reach the generator's input
				chk := append([]int(nil), v...)
				for i := range v {
					v[i] = -1 - i
				}
				v = chk
				if len(in) != len(orig) || (len(in) > 0 && !reflect.DeepEqual(in, orig)) {
					r.bad("Permutation modified its input: %v", in)
				}
				if len(v) != len(orig) || (len(v) > 0 && !reflect.DeepEqual(sortedCopy(v), sortedCopy(orig))) {
					r.bad("Permutation result %v is not a permutation of %v", v, orig)
				}
			}
		}})
	}
	// the input is a window of a larger array (spare capacity behind it), and two values are drawn and
	// kept: neither the caller's array around the window nor an earlier value may change
	for n := 1; n <= 3; n++ {
		n := n
		ps = append(ps, Prog{Name: fmt.Sprintf("Permutation(window of %d in an array of %d)x2", n, 3*n+2), Tags: "coll", New: func() func(t *rapid.T, r *Rec) {
			all := make([]int, 3*n+2)
			for i := range all {
				all[i] = 100 + i
			}
			in := all[1 : 1+n]
			origAll := append([]int(nil), all...)
			g := rapid.Permutation(in)
			return func(t *rapid.T, r *Rec) {
				v1 := g.Draw(t, "p1")
				keep1 := append([]int(nil), v1...)
				v2 := g.Draw(t, "p2")
				r.Draws = append(r.Draws, Render(keep1), Render(v2))
				if !reflect.DeepEqual(all, origAll) {
					r.bad("drawing from Permutation(all[1:%d]) changed the caller's array: %v, was %v", 1+n, all, origAll)
					copy(all, origAll)
				}
				if !reflect.DeepEqual(v1, keep1) {
					r.bad("the first drawn permutation %v turned into %v when the second one was drawn", keep1, v1)
				}
				for _, v := range [][]int{keep1, v2} {
					if !reflect.DeepEqual(sortedCopy(v), sortedCopy(origAll[1:1+n])) {
						r.bad("Permutation result %v is not a permutation of %v", v, origAll[1:1+n])
					}
				}
			}
		}})
	}
	return ps
}

func StringProgs() []Prog {
	ab := func(r rune) bool { return r == 'a' || r == 'b' }
	ps := []Prog{
		one("String()", "str wide", rapid.String, strContract(-1, -1, -1, nil)),
		one("StringN(-1,-1,3)", "str rej wide", func() *rapid.Generator[string] { return rapid.StringN(-1, -1, 3) }, strContract(-1, -1, 3, nil)),
		one("StringN(2,2,-1)", "str wide", func() *rapid.Generator[string] { return rapid.StringN(2, 2, -1) }, strContract(2, 2, -1, nil)),
		one("StringN(0,0,0)", "str", func() *rapid.Generator[string] { return rapid.StringN(0, 0, 0) }, strContract(0, 0, 0, nil)),
		one("StringN(1,2,2)", "str rej wide", func() *rapid.Generator[string] { return rapid.StringN(1, 2, 2) }, strContract(1, 2, 2, nil)),
		one("StringOf(RuneFrom(ab))", "str", func() *rapid.Generator[string] { return rapid.StringOf(rapid.RuneFrom([]rune{'a', 'b'})) }, strContract(-1, -1, -1, ab)),
		one("StringOfN(RuneFrom(世),1,-1,2)", "str rej", func() *rapid.Generator[string] { return rapid.StringOfN(rapid.RuneFrom([]rune{'世'}), 1, -1, 2) },
			func(s string) string {
				return "contract unsatisfiable (3-byte rune, maxLen 2, minRunes 1): must be rejected, got a value"
			}),
		one("StringOfN(RuneFrom(a世),-1,2,3)", "str rej", func() *rapid.Generator[string] { return rapid.StringOfN(rapid.RuneFrom([]rune{'a', '世'}), -1, 2, 3) },
			strContract(-1, 2, 3, func(r rune) bool { return r == 'a' || r == '世' })),
		one("StringOfN(RuneFrom(é),2,3,5)", "str rej", func() *rapid.Generator[string] { return rapid.StringOfN(rapid.RuneFrom([]rune{'é'}), 2, 3, 5) },
			strContract(2, 3, 5, func(r rune) bool { return r == 'é' })),
		// a lower rune limit together with a byte limit that multi-byte runes can exhaust before the lower limit is reached
		one("StringOfN(RuneFrom(aé),4,6,6)", "str rej", func() *rapid.Generator[string] { return rapid.StringOfN(rapid.RuneFrom([]rune{'a', 'é'}), 4, 6, 6) },
			strContract(4, 6, 6, func(r rune) bool { return r == 'a' || r == 'é' })),
		one("StringOfN(RuneFrom(a世),3,-1,6)", "str rej", func() *rapid.Generator[string] { return rapid.StringOfN(rapid.RuneFrom([]rune{'a', '世'}), 3, -1, 6) },
			strContract(3, -1, 6, func(r rune) bool { return r == 'a' || r == '世' })),
		one("StringN(3,-1,4)", "str rej wide", func() *rapid.Generator[string] { return rapid.StringN(3, -1, 4) }, strContract(3, -1, 4, nil)),
		one("StringOfN(RuneFrom(é𝄞),2,2,4)", "str rej", func() *rapid.Generator[string] { return rapid.StringOfN(rapid.RuneFrom([]rune{'é', '𝄞'}), 2, 2, 4) },
			strContract(2, 2, 4, func(r rune) bool { return r == 'é' || r == '𝄞' })),
		// rune limit and byte limit together, with multi-byte runes
		one("StringN(-1,8,12)", "str rej wide", func() *rapid.Generator[string] { return rapid.StringN(-1, 8, 12) }, strContract(-1, 8, 12, nil)),
		one("StringN(0,3,4)", "str rej wide", func() *rapid.Generator[string] { return rapid.StringN(0, 3, 4) }, strContract(0, 3, 4, nil)),
		one("StringOfN(RuneFrom(nil,Han),1,5,6)", "str rej", func() *rapid.Generator[string] { return rapid.StringOfN(rapid.RuneFrom(nil, unicode.Han), 1, 5, 6) },
			strContract(1, 5, 6, func(r rune) bool { return unicode.Is(unicode.Han, r) })),
		one("StringOfN(RuneFrom(é世),-4,-2,5)", "str rej", func() *rapid.Generator[string] {
			return rapid.StringOfN(rapid.RuneFrom([]rune{'é', '世'}), -4, -2, 5)
		},
			strContract(-1, -1, 5, func(r rune) bool { return r == 'é' || r == '世' })),
		one("StringOf(RuneFrom(nil,Nd))", "str", func() *rapid.Generator[string] { return rapid.StringOf(rapid.RuneFrom(nil, unicode.Nd)) },
			strContract(-1, -1, -1, func(r rune) bool { return unicode.Is(unicode.Nd, r) })),
		// a user-supplied rune generator that also yields unencodable code points (surrogates):
		// they must be rejected, never turned into U+FFFD or counted with a wrong length
		one("StringOfN(Int32Range(0xD7FE,0xE001),-1,-1,4)", "str rej", func() *rapid.Generator[string] { return rapid.StringOfN(rapid.Int32Range(0xD7FE, 0xE001), -1, -1, 4) },
			strContract(-1, -1, 4, func(r rune) bool { return r >= 0xD7FE && r <= 0xE001 && r != utf8.RuneError })),
		one("StringOf(SampledFrom(a,-1,0x110000,0xDC00))", "str rej", func() *rapid.Generator[string] {
			return rapid.StringOfN(rapid.SampledFrom([]rune{'a', -1, 0x110000, 0xDC00}), 1, 3, 3)
		}, strContract(1, 3, 3, func(r rune) bool { return r == 'a' })),
		one("Rune()", "str wide", rapid.Rune, func(r rune) string {
			if !utf8.ValidRune(r) {
				return "invalid rune"
			}
			return ""
		}),
		one("RuneFrom(xyz)", "str", func() *rapid.Generator[rune] { return rapid.RuneFrom([]rune{'x', 'y', 'z'}) }, func(r rune) string {
			if r != 'x' && r != 'y' && r != 'z' {
				return "rune not in the given set"
			}
			return ""
		}),
		one("RuneFrom(xy, 120 tables)", "str", func() *rapid.Generator[rune] {
			var tabs []*unicode.RangeTable
			for r := rune(0x4E00); r < 0x4E00+120; r++ {
				tabs = append(tabs, &unicode.RangeTable{R16: []unicode.Range16{{Lo: uint16(r), Hi: uint16(r), Stride: 1}}})
			}
			return rapid.RuneFrom([]rune{'x', 'y'}, tabs...)
		}, func(r rune) string {
			if r != 'x' && r != 'y' && (r < 0x4E00 || r >= 0x4E00+120) {
				return "rune neither in the set nor in the tables"
			}
			return ""
		}),
		one("RuneFrom(x,Lu)", "str", func() *rapid.Generator[rune] { return rapid.RuneFrom([]rune{'x'}, unicode.Lu) }, func(r rune) string {
			if r != 'x' && !unicode.Is(unicode.Lu, r) {
				return "rune neither in the set nor in the table"
			}
			return ""
		}),
	}
	for _, expr := range []string{`abc`, `[ab]{2,3}c?`, `a|bc|d`, `x*`, `y+z`, `^a+$`, `(?i)go`, `\bfoo\b`, `[^a]`, `.`, `(?s).`, `a{0}`, `(a|b)*c`, `\d{3}-\w`, `[[:^alpha:]]`, `^$`, `a$b`, `\pN\PN`, `[α-ω]+`, `\x00`,
		`[\x{D7F0}-\x{D80F}]+`, `\pC`, `\p{Cs}?a`, `[^\x{0}-\x{D7FF}\x{E000}-\x{10FFFF}]|b`, `\PL{2}`,
		// character classes that contain nothing at all, in expressions that still have matches
		`ab|[^\s\S]`, `x[^\s\S]*`, `x\P{Any}?`, `[^\x00-\x{10FFFF}]|c`} {
		expr := expr
		re := regexp.MustCompile(expr)
		ps = append(ps,
			one(fmt.Sprintf("StringMatching(%q)", expr), "str re rej wide", func() *rapid.Generator[string] { return rapid.StringMatching(expr) }, func(s string) string {
				if !re.MatchString(s) {
					return "does not match the regexp"
				}
				if !utf8.ValidString(s) {
					return "invalid UTF-8"
				}
				return ""
			}))
	}
	for _, expr := range []string{`[ab]{2,3}c?`, `^a+$`, `\xff?x`, `[0-9]+`} {
		expr := expr
		re := regexp.MustCompile(expr)
		ps = append(ps,
			one(fmt.Sprintf("SliceOfBytesMatching(%q)", expr), "str re rej wide", func() *rapid.Generator[[]byte] { return rapid.SliceOfBytesMatching(expr) }, func(s []byte) string {
				if !re.Match(s) {
					return "does not match the regexp"
				}
				return ""
			}))
	}
	return ps
}

func CombinatorProgs() []Prog {
	sample := []string{"p", "q", "r", "s", "t"}
	ps := []Prog{
		one("Just(42)", "comb", func() *rapid.Generator[int] { return rapid.Just(42) }, func(v int) string {
			if v != 42 {
				return "not the given value"
			}
			return ""
		}),
		one("SampledFrom(5)", "comb rej", func() *rapid.Generator[string] { return rapid.SampledFrom(sample) }, func(v string) string {
			for _, s := range sample {
				if s == v {
					return ""
				}
			}
			return "not a member of the slice"
		}),
		one("SampledFrom(3)", "comb rej", func() *rapid.Generator[int] { return rapid.SampledFrom([]int{5, 6, 7}) }, func(v int) string {
			if v < 5 || v > 7 {
				return "not a member of the slice"
			}
			return ""
		}),
		one("OneOf(Just(1),IntRange(10,12),SliceLen)", "comb rej", func() *rapid.Generator[int] {
			return rapid.OneOf(rapid.Just(1), rapid.IntRange(10, 12), rapid.Map(rapid.SliceOfN(rapid.Bool(), 0, 3), func(s []bool) int { return 100 + len(s) }))
		}, func(v int) string {
			if v == 1 || (v >= 10 && v <= 12) || (v >= 100 && v <= 103) {
				return ""
			}
			return "value from none of the alternatives"
		}),
		one("Ptr(Int8(),true)", "comb", func() *rapid.Generator[*int8] { return rapid.Ptr(rapid.Int8(), true) }, nil),
		one("Ptr(Int8(),false)", "comb", func() *rapid.Generator[*int8] { return rapid.Ptr(rapid.Int8(), false) }, func(p *int8) string {
			if p == nil {
				return "nil although allowNil=false"
			}
			return ""
		}),
		one("Map(IntRange(0,3),square)", "comb", func() *rapid.Generator[int] { return rapid.Map(rapid.IntRange(0, 3), func(i int) int { return i * i }) }, func(v int) string {
			if v != 0 && v != 1 && v != 4 && v != 9 {
				return "not an image of the mapped function"
			}
			return ""
		}),
		one("Int8().Filter(even)", "comb rej", func() *rapid.Generator[int8] { return rapid.Int8().Filter(func(i int8) bool { return i%2 == 0 }) }, func(v int8) string {
			if v%2 != 0 {
				return "filter predicate false"
			}
			return ""
		}),
		one("IntRange(0,9).Filter(>=8)", "comb rej", func() *rapid.Generator[int] { return rapid.IntRange(0, 9).Filter(func(i int) bool { return i >= 8 }) }, func(v int) string {
			if v < 8 || v > 9 {
				return "filter predicate false / out of range"
			}
			return ""
		}),
		one("Int8().Filter(false)", "comb rej", func() *rapid.Generator[int8] { return rapid.Int8().Filter(func(i int8) bool { return false }) }, func(v int8) string {
			return "contract unsatisfiable: must be rejected, got a value"
		}),
		one("Int8().AsAny()", "comb", func() *rapid.Generator[any] { return rapid.Int8().AsAny() }, func(v any) string {
			if _, ok := v.(int8); !ok {
				return fmt.Sprintf("dynamic type %T, want int8", v)
			}
			return ""
		}),
		one("Custom(pair)", "comb", func() *rapid.Generator[[2]int] {
			return rapid.Custom(func(t *rapid.T) [2]int {
				a := rapid.IntRange(0, 3).Draw(t, "a")
				b := rapid.IntRange(a, 3).Draw(t, "b")
				return [2]int{a, b}
			})
		}, func(v [2]int) string {
			if v[0] < 0 || v[1] > 3 || v[0] > v[1] {
				return "custom invariant a<=b in [0,3] broken"
			}
			return ""
		}),
		one("Custom(skip-odd)", "comb rej", func() *rapid.Generator[int] {
			return rapid.Custom(func(t *rapid.T) int {
				a := rapid.IntRange(0, 5).Draw(t, "a")
				if a%2 == 1 {
					t.Skip("odd")
				}
				return a
			})
		}, func(v int) string {
			if v%2 != 0 || v < 0 || v > 5 {
				return "custom function skipped this value but it was returned"
			}
			return ""
		}),
		{Name: "Deferred(tree)", Tags: "comb", New: func() func(t *rapid.T, r *Rec) {
			// recursive generator through Deferred; recursion depth is bounded so that the
			// program itself terminates for every bitstream (an unbounded critical branching
			// process does not, and that is the user's generator, not rapid)
			var mk func(depth int) *rapid.Generator[*tree]
			mk = func(depth int) *rapid.Generator[*tree] {
				if depth == 0 {
					return rapid.Just[*tree](nil)
				}
				sub := rapid.Deferred(func() *rapid.Generator[*tree] { return mk(depth - 1) })
				return rapid.OneOf(
					rapid.Just[*tree](nil),
					rapid.Custom(func(t *rapid.T) *tree {
						return &tree{
							Val:   rapid.Int8().Draw(t, "val"),
							Left:  sub.Draw(t, "left"),
							Right: sub.Draw(t, "right"),
						}
					}),
				)
			}
			d := rapid.Deferred(func() *rapid.Generator[*tree] { return mk(4) })
			return func(t *rapid.T, r *Rec) {
				v := d.Draw(t, "tree")
				r.Draws = append(r.Draws, renderTree(v))
				if v.depth() > 4 {
					r.bad("tree deeper than the generator allows")
				}
			}
		}},
		one("Make[made]", "comb wide", rapid.Make[made], func(v made) string {
			if !utf8.ValidString(v.G) {
				return "invalid UTF-8 in string field"
			}
			if v.I != v.I {
				return "NaN field"
			}
			return ""
		}),
		one("Make[[]myKind]", "comb", rapid.Make[[]myKind], nil),
		one("Make[map[int8]*bool]", "comb rej", rapid.Make[map[int8]*bool], nil),
		one("Make[[0]int]", "comb", rapid.Make[[0]int], nil),
		one("Make[struct{}]", "comb", rapid.Make[struct{}], nil),
		// Custom functions that reject some of their attempts - directly, from a Cleanup function they
		// registered, or through a draw that gives up inside that Cleanup: a rejected attempt's value is never handed out
		one("Custom(IntRange(0,7), odd rejected by Skip)", "comb rej", func() *rapid.Generator[int] {
			return rapid.Custom(func(t *rapid.T) int {
				v := rapid.IntRange(0, 7).Draw(t, "v")
				if v%2 == 1 {
					t.Skip("odd")
				}
				return v
			})
		}, evenOnly),
		one("Custom(IntRange(0,7), odd rejected by Skip in its Cleanup)", "comb rej", func() *rapid.Generator[int] {
			return rapid.Custom(func(t *rapid.T) int {
				v := rapid.IntRange(0, 7).Draw(t, "v")
				t.Cleanup(func() {
					if v%2 == 1 {
						t.SkipNow()
					}
				})
				return v
			})
		}, evenOnly),
		one("Custom(IntRange(0,7), odd rejected by a draw that gives up in its Cleanup)", "comb rej", func() *rapid.Generator[int] {
			never := rapid.Bool().Filter(func(bool) bool { return false })
			return rapid.Custom(func(t *rapid.T) int {
				v := rapid.IntRange(0, 7).Draw(t, "v")
				t.Cleanup(func() {
					if v%2 == 1 {
						never.Draw(t, "never")
					}
				})
				return v
			})
		}, evenOnly),
		one("Custom(Custom(IntRange(0,7), odd rejected in the inner Cleanup))", "comb rej", func() *rapid.Generator[int] {
			inner := rapid.Custom(func(t *rapid.T) int {
				v := rapid.IntRange(0, 7).Draw(t, "v")
				t.Cleanup(func() {
					if v%2 == 1 {
						t.Skip("odd")
					}
				})
				return v
			})
			return rapid.Custom(func(t *rapid.T) int { return inner.Draw(t, "inner") })
		}, evenOnly),
		// drawing never runs methods of values the user supplied (Just, SampledFrom, OneOf of them): a value
		// whose String method must not be called (it is expensive, it takes a lock, the value refers to itself)
		one("Just(value with a forbidden String method)", "comb", func() *rapid.Generator[noString] { return rapid.Just(noString{7}) }, func(v noString) string { return noStringCheck(v.n == 7) }),
		one("SampledFrom(one value with a forbidden String method)", "comb", func() *rapid.Generator[noString] { return rapid.SampledFrom([]noString{{3}}) }, func(v noString) string { return noStringCheck(v.n == 3) }),
		one("OneOf(Just(forbidden String), Just(forbidden String))", "comb", func() *rapid.Generator[noString] {
			return rapid.OneOf(rapid.Just(noString{1}), rapid.Just(noString{2}))
		}, func(v noString) string { return noStringCheck(v.n == 1 || v.n == 2) }),
		one("SliceOfN(Just(forbidden String),1,2)", "comb coll", func() *rapid.Generator[[]noString] { return rapid.SliceOfN(rapid.Just(noString{4}), 1, 2) }, func(v []noString) string {
			return noStringCheck(len(v) >= 1 && len(v) <= 2 && v[0].n == 4)
		}),
		one("MapOf(Int8(),Just(forbidden String))", "comb coll rej", func() *rapid.Generator[map[int8]noString] { return rapid.MapOf(rapid.Int8(), rapid.Just(noString{5})) }, func(v map[int8]noString) string {
			return noStringCheck(true)
		}),
		one("SliceOfDistinct(OneOf(Just(forbidden String)...))", "comb coll rej", func() *rapid.Generator[[]noString] {
			return rapid.SliceOfDistinct(rapid.OneOf(rapid.Just(noString{1}), rapid.Just(noString{2})), func(v noString) int { return v.n })
		}, func(v []noString) string { return noStringCheck(len(v) <= 2) }),
		// Make for maps whose key type has very few values: once they are used up every further entry is a
		// duplicate, which must end in a forced stop (a smaller valid map), never in an endless search for a new key
		one("Make[map[bool]int8]", "comb rej", rapid.Make[map[bool]int8], func(m map[bool]int8) string { return lenIn(len(m), 0, 2) }),
		one("Make[map[struct{}]string]", "comb rej", rapid.Make[map[struct{}]string], func(m map[struct{}]string) string { return lenIn(len(m), 0, 1) }),
		one("Make[struct{M map[[0]int]uint8}]", "comb rej", rapid.Make[struct{ M map[[0]int]uint8 }], func(v struct{ M map[[0]int]uint8 }) string { return lenIn(len(v.M), 0, 1) }),
		one("Make[map[nBool][]bool]", "comb rej", rapid.Make[map[nBool][]bool], func(m map[nBool][]bool) string { return lenIn(len(m), 0, 2) }),
		// Make for named (defined) types of every kind, at top level and nested: the value has the requested type
		one("Make[nPtr]", "comb", rapid.Make[nPtr], nil),
		one("Make[nPtrPtr]", "comb", rapid.Make[nPtrPtr], nil),
		one("Make[*nPtr]", "comb", rapid.Make[*nPtr], nil),
		one("Make[[]nPtr]", "comb", rapid.Make[[]nPtr], nil),
		one("Make[nStruct]", "comb rej", rapid.Make[nStruct], nil),
		one("Make[nMap]", "comb rej", rapid.Make[nMap], nil),
		one("Make[nArr]", "comb", rapid.Make[nArr], nil),
		one("Make[nSlice]", "comb", rapid.Make[nSlice], nil),
		one("Make[nScalars]", "comb wide", rapid.Make[nScalars], func(v nScalars) string {
			if v.F != v.F || v.G != v.G {
				return "NaN field"
			}
			if !utf8.ValidString(string(v.S)) {
				return "invalid UTF-8 in string field"
			}
			return ""
		}),
		one("Make[nPtr-as-any]", "comb", func() *rapid.Generator[any] { return rapid.Make[nPtr]().AsAny() }, func(v any) string {
			if _, ok := v.(nPtr); !ok {
				return fmt.Sprintf("dynamic type %T, want nPtr", v)
			}
			return ""
		}),
		one("Make[any-typed]", "comb", func() *rapid.Generator[any] { return rapid.Make[myKind]().AsAny() }, func(v any) string {
			if _, ok := v.(myKind); !ok {
				return fmt.Sprintf("dynamic type %T, want myKind", v)
			}
			return ""
		}),
		// depth-2 nestings
		one("SliceOfN(SliceOfDistinct(IntRange(0,1)),1,2)", "comb coll rej", func() *rapid.Generator[[][]int] {
			return rapid.SliceOfN(rapid.SliceOfDistinct(rapid.IntRange(0, 1), rapid.ID[int]), 1, 2)
		}, func(v [][]int) string {
			for _, s := range v {
				if m := first(allIn(s, 0, 1), distinctInts(s)); m != "" {
					return m
				}
			}
			return lenIn(len(v), 1, 2)
		}),
		one("MapOf(StringN(1,1,1),Float64Range(0,1)).Filter(nonempty)", "comb coll rej wide", func() *rapid.Generator[map[string]float64] {
			return rapid.MapOf(rapid.StringOfN(rapid.RuneFrom([]rune{'a', 'b'}), 1, 1, 1), rapid.Float64Range(0, 1)).Filter(func(m map[string]float64) bool { return len(m) > 0 })
		}, func(m map[string]float64) string {
			if len(m) == 0 {
				return "filter predicate false"
			}
			for k, v := range m {
				if (k != "a" && k != "b") || v < 0 || v > 1 || v != v {
					return "entry out of contract"
				}
			}
			return ""
		}),
	}
	return ps
}

// MachineProgs: T.Repeat state machines as catalogue programs.
func MachineProgs() []Prog {
	return []Prog{
		{Name: "Repeat(draw,skip-before,skip-after)", Tags: "machine rej", New: func() func(t *rapid.T, r *Rec) {
			return func(t *rapid.T, r *Rec) {
				n := 0
				t.Repeat(map[string]func(*rapid.T){
					"": func(t *rapid.T) { r.Draws = append(r.Draws, fmt.Sprintf("inv%d", n)) },
					"a": func(t *rapid.T) {
						v := rapid.IntRange(0, 3).Draw(t, "v")
						n++
						r.Draws = append(r.Draws, fmt.Sprintf("a%d", v))
					},
					"b": func(t *rapid.T) { t.Skip("b") }, // a skipped try may be part of a step that is rejected later: not compared
					"c": func(t *rapid.T) {
						// draws and then skips: the whole step is rejected and pruned from the
						// recording, so nothing about it may be part of the compared outcome
						rapid.Bool().Draw(t, "c")
						t.Skip("c")
					},
				})
			}
		}},
		{Name: "Repeat(put,Put,PUT: names differing only by case)", Tags: "machine rej", New: func() func(t *rapid.T, r *Rec) {
			return func(t *rapid.T, r *Rec) {
				t.Repeat(map[string]func(*rapid.T){
					"put": func(t *rapid.T) { r.Draws = append(r.Draws, fmt.Sprintf("put%d", rapid.IntRange(0, 3).Draw(t, "v"))) },
					"Put": func(t *rapid.T) { r.Draws = append(r.Draws, fmt.Sprintf("Put%v", rapid.Bool().Draw(t, "v"))) },
					"PUT": func(t *rapid.T) { r.Draws = append(r.Draws, "PUT") },
					"get": func(t *rapid.T) { r.Draws = append(r.Draws, "get") },
				})
			}
		}},
		{Name: "Repeat(draw, first-draw-is-a-Filter-that-may-give-up)", Tags: "machine rej", New: func() func(t *rapid.T, r *Rec) {
			picky := rapid.IntRange(0, 9).Filter(func(i int) bool { return i >= 7 })
			return func(t *rapid.T, r *Rec) {
				t.Repeat(map[string]func(*rapid.T){
					"a": func(t *rapid.T) { r.Draws = append(r.Draws, fmt.Sprintf("a%d", rapid.IntRange(0, 3).Draw(t, "v"))) },
					"f": func(t *rapid.T) {
						v := picky.Draw(t, "picky") // may run out of tries: the action is then inapplicable
						r.Draws = append(r.Draws, fmt.Sprintf("f%d", v))
					},
				})
			}
		}},
		{Name: "Repeat(draw-only)", Tags: "machine", New: func() func(t *rapid.T, r *Rec) {
			return func(t *rapid.T, r *Rec) {
				t.Repeat(map[string]func(*rapid.T){
					"x": func(t *rapid.T) {
						v := rapid.Bool().Draw(t, "v")
						r.Draws = append(r.Draws, fmt.Sprintf("x%v", v))
					},
				})
			}
		}},
	}
}

func AllProgs() []Prog {
	var ps []Prog
	ps = append(ps, IntegerProgs()...)
	ps = append(ps, FloatProgs()...)
	ps = append(ps, CollectionProgs()...)
	ps = append(ps, StringProgs()...)
	ps = append(ps, CombinatorProgs()...)
	ps = append(ps, NestedProgs()...)
	ps = append(ps, MachineProgs()...)
	ps = append(ps, StabilityProgs()...)
	return ps
}

func evenOnly(v int) string {
	if v%2 != 0 {
		return "a value of a rejected attempt was handed out"
	}
	return ""
}

// FailingProgs: generators whose attempts can also FAIL (not only be rejected) - a failure raised while a
// Filter or Custom attempt is on the stack. They are not part of AllProgs (C03 would call the failure a
// contract violation); C04 and C13 replay them: same bits, same values and the same verdict.
func FailingProgs() []Prog {
	return []Prog{
		one("Custom(IntRange(0,7): odd rejected, >=6 Fatalf)", "rej fails", func() *rapid.Generator[int] {
			return rapid.Custom(func(t *rapid.T) int {
				v := rapid.IntRange(0, 7).Draw(t, "v")
				if v%2 == 1 {
					t.Skip("odd")
				}
				if v >= 6 {
					t.Fatalf("generator function fails for %d", v)
				}
				return v
			})
		}, nil),
		one("IntRange(0,7).Filter(even, predicate panics on 5)", "rej fails", func() *rapid.Generator[int] {
			return rapid.IntRange(0, 7).Filter(func(v int) bool {
				if v == 5 {
					panic("predicate can not handle 5")
				}
				return v%2 == 0
			})
		}, nil),
		one("Custom(Custom(Errorf for 4) + Filter)", "rej fails", func() *rapid.Generator[int] {
			inner := rapid.Custom(func(t *rapid.T) int {
				v := rapid.IntRange(0, 7).Draw(t, "v")
				if v == 4 {
					t.Errorf("inner generator function fails non-fatally for %d", v)
				}
				return v
			})
			return rapid.Custom(func(t *rapid.T) int { return inner.Filter(func(v int) bool { return v != 1 }).Draw(t, "inner") })
		}, nil),
	}
}

// noString: a value whose String method must not be called by the library while it draws.
type noString struct{ n int }

var noStringCalls int64

func (noString) String() string {
	atomic.AddInt64(&noStringCalls, 1)
	return "noString"
}

func noStringCheck(ok bool) string {
	if n := atomic.SwapInt64(&noStringCalls, 0); n > 0 {
		return fmt.Sprintf("the String method of the user-supplied value was called %d time(s) while constructing and drawing", n)
	}
	if !ok {
		return "another value"
	}
	return ""
}
