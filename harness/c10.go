package harness

// C10 - every invocation gets a live context and has all its cleanups run, LIFO.
// E2 where each invocation chooses a cleanup/context recipe; a bracket monitor checks the
// global event trace of whole Check histories (generation, reproduction, every minimization
// attempt, fail-file replay, output capture, final replay), plus Example and MakeFuzz.

import (
	"context"
	"fmt"
	"runtime"
	"sync"
	"time"

	"pgregory.net/rapid"
)

type c10Event struct {
	Kind  string // begin, end, reg, run, ctxlive, ctxdead
	Scope int    // one per *T scope: the invocation, or one Custom attempt inside it
	ID    int
}

type c10Mon struct {
	events []c10Event
	scopes int
	ctxs   map[int]context.Context // scope -> the context handed out
	errs   []string
	mu     sync.Mutex
	// contexts handed out to Cleanup functions: all of them are over
	cleanupCtxs []context.Context
}

func (m *c10Mon) ev(kind string, scope, id int) {
	m.mu.Lock()
	m.events = append(m.events, c10Event{kind, scope, id})
	m.mu.Unlock()
}

func (m *c10Mon) newScope() int { m.scopes++; return m.scopes }

func (m *c10Mon) bad(format string, args ...any) {
	if len(m.errs) < 5 {
		m.errs = append(m.errs, fmt.Sprintf(format, args...))
	}
}

// check validates the bracket discipline on the recorded trace.
func (m *c10Mon) check() {
	type st struct {
		stack []int
		ran   map[int]int
		ended bool
		begun bool
	}
	scopes := map[int]*st{}
	open := []int{} // scopes begun and whose cleanups are not all run yet, in begin order
	get := func(s int) *st {
		if scopes[s] == nil {
			scopes[s] = &st{ran: map[int]int{}}
		}
		return scopes[s]
	}
	for i, e := range m.events {
		s := get(e.Scope)
		switch e.Kind {
		case "begin":
			// everything registered in scopes that have ended must have run before a new top-level invocation begins
			if e.ID == 0 { // top-level invocation
				for _, o := range open {
					if os := scopes[o]; len(os.stack) > 0 {
						m.bad("event %d: invocation (scope %d) begins while scope %d still has %d cleanup(s) that never ran", i, e.Scope, o, len(os.stack))
					}
				}
				open = open[:0]
			}
			s.begun = true
			open = append(open, e.Scope)
		case "end":
			s.ended = true
		case "reg":
			s.stack = append(s.stack, e.ID)
		case "run":
			s.ran[e.ID]++
			if s.ran[e.ID] > 1 {
				m.bad("event %d: cleanup %d of scope %d ran %d times", i, e.ID, e.Scope, s.ran[e.ID])
			}
			if !s.ended {
				m.bad("event %d: cleanup %d of scope %d ran before the call returned", i, e.ID, e.Scope)
			}
			if len(s.stack) == 0 || s.stack[len(s.stack)-1] != e.ID {
				m.bad("event %d: cleanup %d of scope %d ran out of LIFO order (pending %v)", i, e.ID, e.Scope, s.stack)
				for j, id := range s.stack {
					if id == e.ID {
						s.stack = append(s.stack[:j], s.stack[j+1:]...)
						break
					}
				}
			} else {
				s.stack = s.stack[:len(s.stack)-1]
			}
			if ctx := m.ctxs[e.Scope]; ctx != nil && ctx.Err() == nil {
				m.bad("event %d: cleanup %d of scope %d runs while the scope's context is still live", i, e.ID, e.Scope)
			}
		case "ctxdead":
			m.bad("event %d: Context() of scope %d was already cancelled during the call (%d)", i, e.Scope, e.ID)
		}
	}
	for sc, s := range scopes {
		if len(s.stack) > 0 {
			m.bad("scope %d: %d registered cleanup(s) never ran: %v", sc, len(s.stack), s.stack)
		}
		if ctx := m.ctxs[sc]; ctx != nil && ctx.Err() == nil {
			m.bad("scope %d: context still live after the run", sc)
		}
	}
	for _, ctx := range m.cleanupCtxs {
		if ctx.Err() == nil {
			m.bad("a context handed out to a Cleanup function is still live after the run")
		}
	}
}

// useCtx samples T.Context() inside a call.
func (m *c10Mon) useCtx(t *rapid.T, scope, where int) {
	ctx := t.Context()
	if prev := m.ctxs[scope]; prev != nil && prev != ctx {
		m.bad("scope %d: two different contexts within one call", scope)
	}
	m.ctxs[scope] = ctx
	if ctx.Err() != nil {
		m.ev("ctxdead", scope, where)
	} else {
		m.ev("ctxlive", scope, where)
	}
}

// ctxInCleanup samples T.Context() from inside a Cleanup function: the call is over, the context it gets is
// cancelled, and nothing live is left behind for later.
func (m *c10Mon) ctxInCleanup(t *rapid.T, scope int) {
	c := t.Context()
	if c.Err() == nil {
		m.bad("scope %d: Context() requested inside a cleanup is live", scope)
	}
	m.cleanupCtxs = append(m.cleanupCtxs, c)
}

func (m *c10Mon) reg(t *rapid.T, scope, id int, body func()) {
	m.ev("reg", scope, id)
	t.Cleanup(func() {
		m.ev("run", scope, id)
		if body != nil {
			body()
		}
	})
}

func c10Perform(t *rapid.T, m *c10Mon, scope int, b Beh, msg string) {
	switch b {
	case BRcpNone:
	case BRcp1:
		m.useCtx(t, scope, 1)
		m.reg(t, scope, 1, nil)
	case BRcp3:
		m.reg(t, scope, 1, nil)
		m.useCtx(t, scope, 1)
		m.reg(t, scope, 2, nil)
		m.reg(t, scope, 3, nil)
		m.useCtx(t, scope, 2)
	case BRcpNested:
		m.reg(t, scope, 1, nil)
		m.reg(t, scope, 2, func() { m.reg(t, scope, 4, func() { m.reg(t, scope, 5, nil) }) })
		m.reg(t, scope, 3, nil)
	case BRcpPanicMid:
		m.useCtx(t, scope, 1)
		m.reg(t, scope, 1, nil)
		m.reg(t, scope, 2, func() { panic("boom in cleanup " + msg) })
		m.reg(t, scope, 3, nil)
	case BRcpErrorfMid:
		m.reg(t, scope, 1, nil)
		m.reg(t, scope, 2, func() { t.Errorf("nonfatal in cleanup: %s", msg) })
		m.reg(t, scope, 3, nil)
	case BRcpCtxInCleanup:
		m.useCtx(t, scope, 1)
		m.reg(t, scope, 1, func() {
			if c := t.Context(); c.Err() == nil {
				m.bad("scope %d: Context() requested inside a cleanup is live", scope)
			}
		})
		m.reg(t, scope, 2, nil)
	case BRcpCtxOnlyInCleanup:
		// the body never asks for the context; a Cleanup function does, and gets a cancelled one
		m.reg(t, scope, 1, func() { m.ctxInCleanup(t, scope) })
		m.reg(t, scope, 2, nil)
	case BRcpPanicThenCtxInOlderCleanup:
		m.useCtx(t, scope, 1)
		m.reg(t, scope, 1, func() { m.ctxInCleanup(t, scope) })
		m.reg(t, scope, 2, func() { panic("boom in cleanup " + msg) })
	case BRcpSkipThenCtxInOlderCleanup:
		m.useCtx(t, scope, 1)
		m.reg(t, scope, 1, func() { m.ctxInCleanup(t, scope) })
		m.reg(t, scope, 2, func() { t.Skip("skip from cleanup " + msg) })
	case BRcpOldestRegistersThenPanics:
		m.reg(t, scope, 1, func() { m.reg(t, scope, 2, nil); panic("boom in cleanup " + msg) })
	case BRcpOldestRegistersThenSkips:
		m.reg(t, scope, 1, func() { m.reg(t, scope, 2, nil); t.SkipNow() })
	case BRcpOldestRegistersThenFatal:
		m.useCtx(t, scope, 1)
		m.reg(t, scope, 1, func() { m.reg(t, scope, 2, func() { m.ctxInCleanup(t, scope) }); t.Fatalf("fatal in cleanup: %s", msg) })
	case BRcpThenFatal:
		m.reg(t, scope, 1, nil)
		m.useCtx(t, scope, 1)
		m.reg(t, scope, 2, nil)
		siteA(t, msg)
	case BRcpThenSkip:
		m.reg(t, scope, 1, nil)
		m.useCtx(t, scope, 1)
		m.reg(t, scope, 2, nil)
		t.Skip("skip " + msg)
	case BRcpThenPanic:
		m.reg(t, scope, 1, nil)
		m.reg(t, scope, 2, nil)
		m.useCtx(t, scope, 1)
		sitePanic("boom " + msg)
	case BRcpThenErrorf:
		m.reg(t, scope, 1, nil)
		t.Errorf("nonfatal: %s", msg)
		m.reg(t, scope, 2, nil)
		m.useCtx(t, scope, 1)
	case BRcpCleanupSkips:
		m.useCtx(t, scope, 1)
		m.reg(t, scope, 1, func() { t.Skip("skip from the last cleanup " + msg) })
		m.reg(t, scope, 2, nil)
	case BRcpSkipWithCleanupErrorf:
		m.reg(t, scope, 1, func() { t.Errorf("nonfatal in cleanup: %s", msg) })
		m.useCtx(t, scope, 1)
		t.Skip("skip " + msg)
	case BRcpCustomDrawnInCleanup:
		// a Custom generator used from inside a Cleanup function: its function is a call of its own and
		// gets a live context, whatever state the enclosing invocation is in
		g := rapid.Custom(func(it *rapid.T) int {
			is := m.newScope()
			m.ev("begin", is, 1)
			defer m.ev("end", is, 0)
			m.useCtx(it, is, 1)
			m.reg(it, is, 1, nil)
			v := rapid.IntRange(0, 3).Draw(it, "inner")
			m.useCtx(it, is, 2)
			return v
		})
		m.reg(t, scope, 1, nil)
		m.reg(t, scope, 2, func() { g.Draw(t, "drawn-in-cleanup") })
		m.useCtx(t, scope, 1)
		m.reg(t, scope, 3, nil)
	case BRcpNilCleanup:
		m.reg(t, scope, 1, nil)
		m.reg(t, scope, 2, nil)
		t.Cleanup(nil) // e.g. an optional hook that was never set: not a function to run, and no reason to forget the older ones
		m.reg(t, scope, 3, nil)
		m.useCtx(t, scope, 1)
	case BRcpTwoPanickingCleanups:
		m.reg(t, scope, 1, nil)
		m.reg(t, scope, 2, nil)
		m.useCtx(t, scope, 1)
		m.reg(t, scope, 3, func() { panic("boom in cleanup 3 " + msg) })
		m.reg(t, scope, 4, func() { panic("boom in cleanup 4 " + msg) })
	case BRcpFatalAndSkipCleanups:
		m.reg(t, scope, 1, nil)
		m.reg(t, scope, 2, func() { t.Fatalf("fatal in cleanup: %s", msg) })
		m.reg(t, scope, 3, nil)
		m.reg(t, scope, 4, func() { t.SkipNow() })
		m.useCtx(t, scope, 1)
	case BRcpThreeAbnormalCleanups:
		m.reg(t, scope, 1, nil)
		m.reg(t, scope, 2, func() { t.Skip("skip in cleanup") })
		m.reg(t, scope, 3, nil)
		m.reg(t, scope, 4, func() { panic("boom in cleanup 4 " + msg) })
		m.reg(t, scope, 5, func() { t.FailNow() })
		m.reg(t, scope, 6, nil)
	case BRcpGoroutineCleanup:
		var wg sync.WaitGroup
		wg.Add(1)
		m.reg(t, scope, 1, nil)
		go func() { defer wg.Done(); m.useCtx(t, scope, 1) }()
		wg.Wait()
		m.reg(t, scope, 2, nil)
	case BRcpCustom, BRcpCustomSkip, BRcpCustomFatal, BRcpCustomPanic:
		attempt := 0
		g := rapid.Custom(func(it *rapid.T) int {
			attempt++
			is := m.newScope()
			m.ev("begin", is, 1)
			defer m.ev("end", is, 0)
			m.useCtx(it, is, 1)
			m.reg(it, is, 1, nil)
			v := rapid.IntRange(0, 3).Draw(it, "inner")
			m.reg(it, is, 2, func() { m.reg(it, is, 3, nil) })
			m.useCtx(it, is, 2)
			if b == BRcpCustomSkip && attempt == 1 {
				it.Skip("first attempt")
			}
			if b == BRcpCustomFatal {
				siteA(it, msg)
			}
			if b == BRcpCustomPanic {
				sitePanic("boom " + msg)
			}
			return v
		})
		m.reg(t, scope, 1, nil)
		g.Draw(t, "custom")
		m.useCtx(t, scope, 1)
		m.reg(t, scope, 2, nil)
	default:
		panic("harness: not a C10 recipe")
	}
}

var c10Alpha = []Beh{BRcpNone, BRcp1, BRcp3, BRcpNested, BRcpPanicMid, BRcpErrorfMid, BRcpCtxInCleanup, BRcpThenFatal, BRcpThenSkip, BRcpThenPanic, BRcpThenErrorf, BRcpCustom, BRcpCustomSkip, BRcpGoroutineCleanup, BRcpCustomFatal, BRcpCustomPanic, BRcpCleanupSkips, BRcpSkipWithCleanupErrorf, BRcpTwoPanickingCleanups, BRcpFatalAndSkipCleanups, BRcpThreeAbnormalCleanups, BRcpNilCleanup, BRcpCustomDrawnInCleanup, BRcpCtxOnlyInCleanup, BRcpPanicThenCtxInOlderCleanup, BRcpSkipThenCtxInOlderCleanup, BRcpOldestRegistersThenPanics, BRcpOldestRegistersThenSkips, BRcpOldestRegistersThenFatal}

func c10Prog(m func() *c10Mon, T int16) *LazyProgram {
	return &LazyProgram{
		Name: fmt.Sprintf("recipes/int16>=%d", T),
		Body: func(t *rapid.T, e *Env) {
			mon := m()
			scope := mon.newScope()
			mon.ev("begin", scope, 0)
			defer mon.ev("end", scope, 0)
			mon.useCtx(t, scope, 0) // every call samples its context first: it must be live
			x := rapid.Int16().Draw(t, "x")
			e.cur.Draws = fmt.Sprint(x)
			b := e.Decide("body", fmt.Sprint(x))
			if b.Falsifies() {
				e.cur.Signalled = append(e.cur.Signalled, b)
			}
			c10Perform(t, mon, scope, b, fmt.Sprint(x))
		},
		Base: func(ctx, d string) Beh {
			var x int
			fmt.Sscan(d, &x)
			if x >= int(T) {
				return BRcpThenFatal
			}
			return BRcp1
		},
	}
}

func c10Units(tier string, seed int64) []Unit {
	quick := tier != "thorough"
	var units []Unit
	nseeds := 4
	if !quick {
		nseeds = 16
	}
	for _, nff := range []bool{true, false} {
		for _, T := range []int16{100, 32767} {
			for s := 0; s < nseeds; s++ {
				nff, T := nff, T
				sd := uint64(seed)*4099 + uint64(s)*7368787 + 13
				units = append(units, Unit{Name: fmt.Sprintf("C10/threshold=%d/nofailfile=%v/seed=%d", T, nff, sd), Run: func(c *Ctx) {
					var mon *c10Mon
					prog := c10Prog(func() *c10Mon { return mon }, T)
					cfg := Config{Checks: 6, Seed: sd, ShrinkMS: -1, NoFailFile: nff, Name: "TestC10"}
					d := &LazyDFS{Prog: prog, Cfg: cfg, Alphabet: func(string) []Beh { return c10Alpha }, P: 10, MaxDev: 1}
					if !quick {
						d.P, d.MaxDev, d.MaxRuns = 24, 2, 40000
					}
					d.PreRun = func() {
						CleanFailFiles()
						mon = &c10Mon{ctxs: map[int]context.Context{}}
					}
					c.R.Bounds = fmt.Sprintf("recipe deviations<=%d on the first %d inputs (incl. minimization candidates)", d.MaxDev, d.P)
					d.Explore(c, func(log *RunLog, assign []KV, devs int) {
						mon.check()
						v := log.Verdict()
						c.R.Transitions += int64(len(mon.events))
						nreg := 0
						for _, e := range mon.events {
							if e.Kind == "reg" {
								nreg++
							}
						}
						c.Count("cleanups_registered", int64(nreg))
						c.Count("scopes", int64(mon.scopes))
						c.Outcome(fmt.Sprintf("%s invs=%d scopes=%d regs=%d", v.Class, len(log.Env.Invs), mon.scopes, nreg), nreg > 0)
						if log.Escaped != nil {
							mon.bad("Check let a panic escape: %v", log.Escaped)
						}
						if len(mon.errs) > 0 {
							kind := "bracket"
							c.Violate(Violation{Sig: "C10 " + kind + " " + sigOf(mon.errs[0]), Detail: fmt.Sprintf("%v\nprogram %s %s\nTB: %s\ninvocations: %s", mon.errs, prog.Name, cfg, v.Class, SummarizeInvs(log.Env.Invs, 10)),
								Replay: map[string]any{"program": prog.Name, "assign": assign, "config": cfg.String()}, Devs: devs})
						}
					})
				}})
			}
		}
	}
	// Example and MakeFuzz histories
	units = append(units, Unit{Name: "C10/example+fuzz", Run: func(c *Ctx) {
		for _, b := range c10Alpha {
			for s := 0; s < 40; s++ {
				mon := &c10Mon{ctxs: map[int]context.Context{}}
				g := rapid.Custom(func(it *rapid.T) int {
					sc := mon.newScope()
					mon.ev("begin", sc, 0)
					defer mon.ev("end", sc, 0)
					v := rapid.IntRange(0, 9).Draw(it, "v")
					if !b.Falsifies() && b != BRcpThenSkip || v < 5 && b == BRcpThenSkip {
						c10Perform(it, mon, sc, b, "ex")
					}
					return v
				})
				Guard(func() { g.Example(s) })
				mon.check()
				c.R.Evals++
				c.R.States++
				c.R.Transitions += int64(len(mon.events))
				c.Outcome(fmt.Sprintf("example %s regs=%d", b, len(mon.events)), true)
				if len(mon.errs) > 0 {
					c.Violate(Violation{Sig: "C10 example " + sigOf(mon.errs[0]), Detail: fmt.Sprintf("Example(%d) with recipe %s: %v", s, b, mon.errs), Replay: map[string]any{"engine": "example", "recipe": b.String(), "seed": s}})
				}
				// fuzz: words from a PRNG recording of the same generator
				mon2 := &c10Mon{ctxs: map[int]context.Context{}}
				input := wordsToBytes([]uint64{uint64(s) * 0x9e3779b97f4a7c15, uint64(s), 3, uint64(s) << 40, 1, 0, 7})
				tb := NewTB("fuzz")
				Guard(func() {
					rapid.VerifCheckFuzz(tb, func(t *rapid.T) {
						sc := mon2.newScope()
						mon2.ev("begin", sc, 0)
						defer mon2.ev("end", sc, 0)
						rapid.Int16().Draw(t, "x")
						c10Perform(t, mon2, sc, b, "fz")
					}, input[:len(input)-s%9])
				})
				mon2.check()
				c.R.Evals++
				c.R.States++
				c.R.Transitions += int64(len(mon2.events))
				if len(mon2.errs) > 0 {
					c.Violate(Violation{Sig: "C10 fuzz " + sigOf(mon2.errs[0]), Detail: fmt.Sprintf("MakeFuzz body with recipe %s: %v", b, mon2.errs), Replay: map[string]any{"engine": "fuzz", "recipe": b.String(), "input": input}})
				}
			}
		}
	}})
	// An invocation can also end by runtime.Goexit: Skip / FailNow / a require-style helper bound to the *enclosing*
	// *testing.T ends the goroutine, and only deferred calls run. The k-th invocation of the property (or of a Custom
	// generator function) ends that way, after its recipe; Check, the MakeFuzz body and Example run on a goroutine of their own.
	units = append(units, Unit{Name: "C10/invocation-ends-by-Goexit", Run: func(c *Ctx) {
		recipes := []Beh{BRcpNone, BRcp1, BRcp3, BRcpNested, BRcpPanicMid, BRcpErrorfMid, BRcpCtxInCleanup, BRcpCustom, BRcpCtxOnlyInCleanup, BRcpGoroutineCleanup, BRcpNilCleanup, BRcpOldestRegistersThenPanics}
		onGoroutine := func(f func()) {
			done := make(chan struct{})
			go func() {
				defer close(done)
				defer func() { recover() }()
				f()
			}()
			<-done
		}
		for _, b := range recipes {
			for _, where := range []string{"check-body", "check-custom", "fuzz-body", "example-custom"} {
				for _, k := range []int{1, 2, 7} {
					mon := &c10Mon{ctxs: map[int]context.Context{}}
					n := 0
					body := func(t *rapid.T) {
						sc := mon.newScope()
						mon.ev("begin", sc, 0)
						defer mon.ev("end", sc, 0)
						mon.useCtx(t, sc, 0)
						rapid.Int16().Draw(t, "x")
						c10Perform(t, mon, sc, b, "gx")
						n++
						if n == k {
							runtime.Goexit()
						}
					}
					g := rapid.Custom(func(t *rapid.T) int { body(t); return 0 })
					CleanFailFiles()
					switch where {
					case "check-body":
						onGoroutine(func() { c10Check(body) })
					case "check-custom":
						onGoroutine(func() {
							c10Check(func(t *rapid.T) { g.Draw(t, "g") })
						})
					case "fuzz-body":
						for i := 0; i < k; i++ {
							input := wordsToBytes([]uint64{uint64(i) * 0x9e3779b97f4a7c15, uint64(i), 3, 1, 0, 7})
							onGoroutine(func() { rapid.VerifCheckFuzz(NewTB("fuzz"), body, input) })
						}
					case "example-custom":
						for i := 0; i < k; i++ {
							onGoroutine(func() { g.Example(i) })
						}
					}
					mon.check()
					c.R.Evals++
					c.R.States++
					c.R.Transitions += int64(len(mon.events))
					c.Outcome(fmt.Sprintf("goexit %s %s k=%d scopes=%d reached=%v", where, b, k, mon.scopes, n >= k), n >= k)
					if n < k && b != BRcpPanicMid && b != BRcpErrorfMid && b != BRcpOldestRegistersThenPanics {
						mon.bad("harness: the %d-th invocation was never reached (%d ran)", k, n)
					}
					if len(mon.errs) > 0 {
						c.Violate(Violation{Sig: "C10 goexit " + where + " " + sigOf(mon.errs[0]), Detail: fmt.Sprintf("recipe %s, invocation %d of %s ends by runtime.Goexit: %v", b, k, where, mon.errs),
							Replay: map[string]any{"engine": "goexit", "where": where, "recipe": b.String(), "k": k}})
					}
				}
			}
		}
	}})
	return units
}

// c10Check runs the public Check on a fake TB with fixed flags (10 checks, seed 77, no fail file).
func c10Check(body func(*rapid.T)) {
	setFlags(Config{Checks: 10, Seed: 77, ShrinkMS: -1, NoFailFile: true})
	tb := NewTB("TestC10Goexit")
	Guard(func() { rapid.Check(tb, body) })
}

// sigOf strips numbers from a monitor message so that the signature is stable.
func sigOf(msg string) string {
	out := make([]rune, 0, len(msg))
	for _, r := range msg {
		if r >= '0' && r <= '9' {
			continue
		}
		out = append(out, r)
	}
	if len(out) > 90 {
		out = out[:90]
	}
	return string(out)
}

func init() {
	Register(&Check{
		ID:    "C10",
		Level: "model_checking",
		Rule: "E2 lazyprop: every invocation chooses one of 23 cleanup/context recipes (0-5 cleanups, nested registration, panicking / Errorf-ing cleanup, Context() in body, goroutine, cleanup and Custom, Custom retried after a skip, every way of ending); " +
			"recipe deviations on the first P inputs incl. minimization candidates, over whole failing-and-minimizing Check histories with and without fail file, plus Example and the MakeFuzz body. " +
			"Oracle: bracket monitor over the global event trace (live context during the call, cancelled before any cleanup, each cleanup exactly once, LIFO, all done before the next invocation begins). " +
			"distinct = distinct (class, #invocations, #scopes, #registrations); non-trivial = at least one cleanup was registered.",
		Assumptions: []string{"goroutines are joined before the property returns"},
		Units:       c10Units,
		Budget:      map[string]time.Duration{"quick": 50 * time.Second, "thorough": 15 * time.Minute},
	})
}
