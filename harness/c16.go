package harness

// C16 - saving a fail file is atomic with respect to process crashes.
// E4: (a) real crashes: the save runs in a child process under strace, which delivers SIGKILL on
// entry to the k-th occurrence of every file-system-affecting system call of the save window;
// (b) the in-process file-system shim (rule r6) enumerates a crash before/inside every operation,
// including torn writes that a signal cannot produce on demand. After every crash, every file the
// discovery glob matches must load and be identical to what an uninterrupted save produces.

import (
	"bytes"
	"encoding/json"
	"errors"
	"fmt"
	"os"
	"os/exec"
	"path/filepath"
	"regexp"
	"runtime"
	"sort"
	"strconv"
	"strings"
	"syscall"
	"time"

	"pgregory.net/rapid"
	"pgregory.net/rapid/verifrt/vfs"
)

type c16Input struct {
	Name   string   `json:"name"`
	Lines  int      `json:"lines"`   // number of output lines (-1: one line of 1 MiB)
	Words  int      `json:"words"`   // buffer length
	DirPre string   `json:"dir_pre"` // absent, present, older
	File   string   `json:"file"`
	TmpDir string   `json:"tmpdir,omitempty"` // "other-fs": the child's TMPDIR is on another file system than the test's directory
	Mode   string   `json:"mode,omitempty"`   // "": one save; "second-save-same-name": an uninterrupted save, then the traced one to the same name; "check": a whole failing rapid.Check
	Buf    []uint64 `json:"-"`
	Out    []byte   `json:"-"`
}

func (in *c16Input) fill() {
	switch {
	case in.Lines < 0:
		in.Out = bytes.Repeat([]byte("X"), 1<<20)
	case in.Lines == 0:
		in.Out = nil
	default:
		var b bytes.Buffer
		for i := 0; i < in.Lines; i++ {
			fmt.Fprintf(&b, "[rapid] draw x%d: %d", i, i*i)
			if i < in.Lines-1 {
				b.WriteByte('\n')
			}
		}
		in.Out = b.Bytes()
	}
	in.Buf = make([]uint64, in.Words)
	for i := range in.Buf {
		in.Buf[i] = uint64(i)*0x9e3779b97f4a7c15 + 1
	}
	dir, _ := rapid.VerifFailFileName(in.Name)
	in.File = filepath.Join(dir, rapid.VerifSafeFilename(in.Name)+"-20260102030405-4242.fail")
}

// c16Expected: the specified content of a fail file, written independently of saveFailFile: every line
// of the captured output as a "# " comment, then "<version>#<seed>", then one "0x..." word per line.
func c16Expected(in *c16Input) string {
	var b strings.Builder
	for _, ln := range strings.Split(string(in.Out), "\n") {
		b.WriteString("# " + ln + "\n")
	}
	b.WriteString(fmt.Sprintf("%s#%d", rapid.VerifVersion(), 99))
	for _, w := range in.Buf {
		b.WriteString(fmt.Sprintf("\n0x%x", w))
	}
	return b.String()
}

const c16Older = "# older failure\nv0.4.8#7\n0x1\n0x2"

const c16FirstOut = "the earlier failure\nsecond line of it"

// c16FirstExpected: the complete file of the earlier save in mode "second-save-same-name"
func c16FirstExpected() string {
	return "# the earlier failure\n# second line of it\n" + rapid.VerifVersion() + "#98\n0x7\n0x8\n0x9"
}

var reC16Stamp = regexp.MustCompile(`(?m)^# \d{4}/\d\d/\d\d \d\d:\d\d:\d\d(\.\d+)? `)

func (in *c16Input) prepareDir() {
	os.RemoveAll("testdata")
	dir := filepath.Dir(in.File)
	switch in.DirPre {
	case "present":
		os.MkdirAll(dir, 0o775)
	case "older":
		os.MkdirAll(dir, 0o775)
		os.WriteFile(filepath.Join(dir, rapid.VerifSafeFilename(in.Name)+"-20200101000000-1.fail"), []byte(c16Older), 0o644)
	}
}

// c16Inspect checks the post-crash directory: every glob-visible file is complete.
func c16Inspect(in *c16Input, reference string) (problems []string, visible int, tmp int) {
	matches, _ := filepath.Glob(rapid.VerifFailFilePattern(in.Name))
	sort.Strings(matches)
	for _, m := range matches {
		visible++
		b, err := os.ReadFile(m)
		if err != nil {
			problems = append(problems, fmt.Sprintf("%s: unreadable: %v", m, err))
			continue
		}
		want := reference
		if strings.Contains(m, "-20200101000000-1.fail") {
			want = c16Older
		}
		got := string(b)
		if in.Mode == "second-save-same-name" && got == c16FirstExpected() {
			continue // the earlier complete file is still there: fine
		}
		if in.Mode == "check" {
			// file names carry time and pid, comments carry time stamps: compare up to those
			got, want = reC16Stamp.ReplaceAllString(got, "# "), reC16Stamp.ReplaceAllString(want, "# ")
		}
		if got != want {
			problems = append(problems, fmt.Sprintf("%s: %d bytes, differs from the uninterrupted save's %d bytes (common prefix %d)", m, len(b), len(want), commonPrefix(string(b), want)))
		}
		if _, _, _, err := rapid.VerifLoadFailFile(m); err != nil {
			problems = append(problems, fmt.Sprintf("%s: does not load: %v", m, err))
		}
	}
	all, _ := filepath.Glob(filepath.Join(filepath.Dir(in.File), "*"))
	all2, _ := filepath.Glob(filepath.Join(filepath.Dir(in.File), ".*"))
	for _, f := range append(all, all2...) {
		if strings.HasPrefix(filepath.Base(f), ".rapid-failfile-tmp-") {
			tmp++
		}
	}
	return
}

func commonPrefix(a, b string) int {
	n := 0
	for n < len(a) && n < len(b) && a[n] == b[n] {
		n++
	}
	return n
}

// ---------------------------------------------------------------- (b) shim

type c16Hook struct {
	ops     []string
	crashAt int // op index at which the process "dies" (-1: never)
	keep    int // for a write: bytes that still reach the file
	dead    bool
}

var errCrashed = errors.New("process is dead")

func (h *c16Hook) Op(kind, path string, n int) (error, int) {
	if h.dead {
		return errCrashed, 0
	}
	i := len(h.ops)
	h.ops = append(h.ops, fmt.Sprintf("%s:%d", kind, n))
	if i == h.crashAt {
		h.dead = true
		return errCrashed, h.keep
	}
	return nil, -1
}

func c16ShimUnit(in c16Input) Unit {
	return Unit{Name: fmt.Sprintf("C16/shim/lines=%d/words=%d/dir=%s", in.Lines, in.Words, in.DirPre), Run: func(c *Ctx) {
		in := in
		in.fill()
		defer func() { vfs.H = nil }()
		// reference run, recording the operation trace
		in.prepareDir()
		rec := &c16Hook{crashAt: -1}
		vfs.H = rec
		if err := rapid.VerifSaveFailFile(in.File, rapid.VerifVersion(), in.Out, 99, in.Buf); err != nil {
			c.R.HarnessErr = "reference save failed: " + err.Error()
			return
		}
		vfs.H = nil
		refb, _ := os.ReadFile(in.File)
		reference := string(refb)
		if exp := c16Expected(&in); reference != exp {
			c.Violate(Violation{Sig: "C16 uninterrupted-save-writes-other-content", Detail: fmt.Sprintf("uninterrupted save: %d bytes, specified content: %d bytes (common prefix %d)", len(reference), len(exp), commonPrefix(reference, exp)), Replay: map[string]any{"input": in}})
		}
		if p, _, tmp := c16Inspect(&in, reference); len(p) > 0 || tmp > 0 {
			c.Violate(Violation{Sig: "C16 uninterrupted-save-leaves-bad-state", Detail: fmt.Sprintf("%v, %d temp files left", p, tmp), Replay: map[string]any{"input": in}})
		}
		c.Sample(map[string]any{"input": fmt.Sprintf("lines=%d words=%d dir=%s", in.Lines, in.Words, in.DirPre), "operation_trace": rec.ops[:min(len(rec.ops), 12)], "operations": len(rec.ops)})
		for k := range rec.ops {
			if c.Expired() {
				c.Cap("time budget")
				return
			}
			keeps := []int{0}
			var n int
			if strings.HasPrefix(rec.ops[k], "write:") {
				fmt.Sscanf(rec.ops[k], "write:%d", &n)
				keeps = uniqInts([]int{0, 1, n / 2, n - 1})
			}
			for _, keep := range keeps {
				in.prepareDir()
				h := &c16Hook{crashAt: k, keep: keep}
				vfs.H = h
				err := rapid.VerifSaveFailFile(in.File, rapid.VerifVersion(), in.Out, 99, in.Buf)
				vfs.H = nil
				c.R.Evals++
				c.R.States++
				c.R.Transitions += int64(len(h.ops))
				problems, visible, tmp := c16Inspect(&in, reference)
				c.Outcome(fmt.Sprintf("crash@%s keep=%d visible=%d tmp=%d err=%v", rec.ops[k], keep, visible, tmp, err != nil), true)
				if len(problems) > 0 {
					c.Violate(Violation{Sig: "C16 partial-file-visible op=" + strings.Split(rec.ops[k], ":")[0], Detail: fmt.Sprintf("crash before/inside operation %d (%s, %d bytes of it persisted): %v", k, rec.ops[k], keep, problems),
						Replay: map[string]any{"engine": "shim", "input": in, "crash_op": k, "keep": keep, "ops": rec.ops[:min(len(rec.ops), 30)]}, Devs: k})
				}
				_ = err
			}
		}
		// two-step history: an earlier, bigger save of the same test died mid-way (leaving whatever temporary
		// state the implementation uses); a later uninterrupted save must still publish exactly its own content
		big := in
		big.Lines, big.Words = 60, in.Words+300
		big.fill()
		big.File = strings.Replace(in.File, "-20260102030405-", "-20260102030404-", 1)
		expected := c16Expected(&in)
		in.prepareDir()
		recBig := &c16Hook{crashAt: -1}
		vfs.H = recBig
		rapid.VerifSaveFailFile(big.File, rapid.VerifVersion(), big.Out, 99, big.Buf)
		vfs.H = nil
		for k, op := range recBig.ops {
			if !strings.HasPrefix(op, "write:") && !strings.HasPrefix(op, "rename:") && !strings.HasPrefix(op, "close:") {
				continue
			}
			if c.Quick() && strings.HasPrefix(op, "write:") && k%7 != 0 && k != len(recBig.ops)-5 {
				continue
			}
			in.prepareDir()
			var n int
			fmt.Sscanf(op, "write:%d", &n)
			vfs.H = &c16Hook{crashAt: k, keep: n / 2}
			rapid.VerifSaveFailFile(big.File, rapid.VerifVersion(), big.Out, 99, big.Buf) // dies at operation k
			vfs.H = nil
			os.Remove(big.File) // whatever the killed save published is not the subject here
			err := rapid.VerifSaveFailFile(in.File, rapid.VerifVersion(), in.Out, 99, in.Buf)
			c.R.Evals++
			c.R.States++
			got, _ := os.ReadFile(in.File)
			c.Outcome(fmt.Sprintf("history crash@%s then clean save: %d bytes err=%v", op, len(got), err != nil), true)
			if err != nil || string(got) != expected {
				c.Violate(Violation{Sig: "C16 leftover-of-a-killed-save-corrupts-a-later-save", Detail: fmt.Sprintf("an earlier save of %d bytes was killed at operation %d (%s); the next uninterrupted save published %d bytes instead of its %d (common prefix %d, err %v)", len(c16Expected(&big)), k, op, len(got), len(expected), commonPrefix(string(got), expected), err),
					Replay: map[string]any{"engine": "shim-history", "input": in, "crash_op": k}})
			}
			if problems, _, _ := c16Inspect(&in, expected); len(problems) > 0 {
				c.Violate(Violation{Sig: "C16 partial-file-visible after-history", Detail: fmt.Sprintf("after killed save (op %d %s) + clean save: %v", k, op, problems), Replay: map[string]any{"engine": "shim-history", "input": in, "crash_op": k}})
			}
		}
	}}
}

func uniqInts(xs []int) []int {
	seen := map[int]bool{}
	var out []int
	for _, x := range xs {
		if x >= 0 && !seen[x] {
			seen[x] = true
			out = append(out, x)
		}
	}
	return out
}

// ---------------------------------------------------------------- (a) real crashes under strace

// CrashChildMain is the body of `vcheck crashchild <json>`: it performs one save between two sentinels.
func CrashChildMain(arg string) {
	runtime.LockOSThread()
	var in c16Input
	if err := json.Unmarshal([]byte(arg), &in); err != nil {
		fmt.Fprintln(os.Stderr, err)
		os.Exit(2)
	}
	in.fill()
	var err error
	switch in.Mode {
	case "second-save-same-name":
		// an earlier, uninterrupted save under the very name the traced one is going to use (same test, same second, same pid)
		if err = rapid.VerifSaveFailFile(in.File, rapid.VerifVersion(), []byte(c16FirstOut), 98, []uint64{7, 8, 9}); err != nil {
			fmt.Fprintln(os.Stderr, err)
			os.Exit(1)
		}
		syscall.Mkdir("SENTINEL-BEGIN", 0o700)
		err = rapid.VerifSaveFailFile(in.File, rapid.VerifVersion(), in.Out, 99, in.Buf)
		syscall.Mkdir("SENTINEL-END", 0o700)
	case "check":
		// everything the public Check does for a failing property, from the first test case to the final report
		setFlags(Config{Checks: 3, Seed: 5, ShrinkMS: 0})
		tb := NewTB(in.Name)
		syscall.Mkdir("SENTINEL-BEGIN", 0o700)
		Guard(func() {
			rapid.Check(tb, func(t *rapid.T) {
				x := rapid.Int16().Draw(t, "x")
				for i := 0; i < in.Lines; i++ {
					t.Logf("line %d of the output", i)
				}
				for i := 0; i < in.Words; i++ {
					rapid.Uint64().Draw(t, "w")
				}
				t.Fatalf("always fails (x=%d)", x)
			})
		})
		syscall.Mkdir("SENTINEL-END", 0o700)
	default:
		syscall.Mkdir("SENTINEL-BEGIN", 0o700)
		err = rapid.VerifSaveFailFile(in.File, rapid.VerifVersion(), in.Out, 99, in.Buf)
		syscall.Mkdir("SENTINEL-END", 0o700)
	}
	if err != nil {
		fmt.Fprintln(os.Stderr, err)
		os.Exit(1)
	}
}

// c16OtherFS returns a fresh directory on a file system other than the current directory's ("" if there is none).
func c16OtherFS() string {
	var here syscall.Stat_t
	if syscall.Stat(".", &here) != nil {
		return ""
	}
	for _, cand := range []string{"/dev/shm", "/run/lock", "/tmp", "/var/tmp", "/run"} {
		var st syscall.Stat_t
		if syscall.Stat(cand, &st) == nil && st.Dev != here.Dev {
			if d, err := os.MkdirTemp(cand, "vc16-"); err == nil {
				return d
			}
		}
	}
	return ""
}

// c16Env: the environment of the saving child.
func c16Env(tmpdir string) []string {
	if tmpdir == "" {
		return nil // inherit
	}
	return append(os.Environ(), "TMPDIR="+tmpdir)
}

var reStraceLine = regexp.MustCompile(`^(\d+)\s+(\w+)\((.*)$`)

// fsAffecting: the system calls that change the file system (the crash points of the statement).
var fsAffecting = map[string]bool{"mkdir": true, "mkdirat": true, "open": true, "openat": true, "creat": true, "write": true, "pwrite64": true, "writev": true,
	"close": true, "rename": true, "renameat": true, "renameat2": true, "unlink": true, "unlinkat": true, "link": true, "linkat": true, "fsync": true, "fdatasync": true, "ftruncate": true, "chmod": true, "fchmod": true, "fchmodat": true}

type c16Window struct {
	calls  []string       // fs-affecting calls inside the window, in order ("name args")
	before map[string]int // per name: occurrences on the saving thread before the window
	tid    string
}

func c16Trace(self, arg string, env []string) (*c16Window, error) {
	tf := "strace.out"
	os.Remove(tf)
	os.Remove("SENTINEL-BEGIN")
	os.Remove("SENTINEL-END")
	cmd := exec.Command("strace", "-f", "-o", tf, "-e", "trace=file,desc", self, "crashchild", arg)
	cmd.Env = env
	if out, err := cmd.CombinedOutput(); err != nil {
		return nil, fmt.Errorf("dry run under strace failed: %v: %s", err, trunc(string(out), 300))
	}
	b, err := os.ReadFile(tf)
	if err != nil {
		return nil, err
	}
	w := &c16Window{before: map[string]int{}}
	lines := strings.Split(string(b), "\n")
	// find the thread that issues the sentinel
	for _, ln := range lines {
		if strings.Contains(ln, "SENTINEL-BEGIN") {
			if m := reStraceLine.FindStringSubmatch(ln); m != nil {
				w.tid = m[1]
			}
		}
	}
	if w.tid == "" {
		return nil, fmt.Errorf("sentinel not found in strace output")
	}
	state := 0
	for _, ln := range lines {
		m := reStraceLine.FindStringSubmatch(ln)
		if m == nil || m[1] != w.tid {
			continue
		}
		name := m[2]
		switch {
		case strings.Contains(ln, "SENTINEL-BEGIN"):
			w.before[name]++ // the sentinel mkdir itself precedes the window
			state = 1
			continue
		case strings.Contains(ln, "SENTINEL-END"):
			state = 2
			continue
		}
		if state == 0 {
			if fsAffecting[name] {
				w.before[name]++
			}
		} else if state == 1 && fsAffecting[name] {
			w.calls = append(w.calls, name+" "+trunc(m[3], 60))
		}
	}
	return w, nil
}

func c16StraceUnit(in c16Input) Unit {
	uname := fmt.Sprintf("C16/sigkill/lines=%d/words=%d/dir=%s", in.Lines, in.Words, in.DirPre)
	if in.TmpDir != "" {
		uname += "/TMPDIR=" + in.TmpDir
	}
	if in.Mode != "" {
		uname += "/" + in.Mode
	}
	return Unit{Name: uname, Run: func(c *Ctx) {
		in := in
		in.fill()
		var env []string
		if in.TmpDir == "other-fs" {
			d := c16OtherFS()
			if d == "" {
				c.Cap("no second file system available for TMPDIR")
				return
			}
			defer os.RemoveAll(d)
			env = c16Env(d)
		}
		self, _ := os.Executable()
		argb, _ := json.Marshal(in)
		arg := string(argb)
		// reference
		in.prepareDir()
		w, err := c16Trace(self, arg, env)
		if err != nil {
			// no ptrace in this environment: the shim units alone decide the property (DESIGN.md section 9);
			// recorded as a cap, never as an alarm
			c.Cap("real-crash part skipped, strace/ptrace unavailable: " + trunc(err.Error(), 120))
			return
		}
		refb, _ := os.ReadFile(in.File)
		if in.Mode == "check" {
			// Check chooses the file's name itself (time, pid)
			ms, _ := filepath.Glob(rapid.VerifFailFilePattern(in.Name))
			for _, m := range ms {
				if !strings.Contains(m, "-20200101000000-1.fail") {
					refb, _ = os.ReadFile(m)
				}
			}
		}
		reference := string(refb)
		if reference == "" {
			c.R.HarnessErr = "reference run wrote no file"
			return
		}
		// the window must be reproducible
		in.prepareDir()
		w2, err := c16Trace(self, arg, env)
		if err != nil || len(w2.calls) != len(w.calls) || fmt.Sprint(w2.before) != fmt.Sprint(w.before) {
			c.R.HarnessErr = fmt.Sprintf("system-call window not reproducible: %d vs %d calls, before %v vs %v (%v)", len(w.calls), len(w2.calls), w.before, w2.before, err)
			return
		}
		c.Sample(map[string]any{"input": fmt.Sprintf("lines=%d words=%d dir=%s", in.Lines, in.Words, in.DirPre), "syscall_window": w.calls[:min(len(w.calls), 14)], "syscalls_in_window": len(w.calls)})

		occ := map[string]int{}
		for i, call := range w.calls {
			if c.Expired() {
				c.Cap("time budget")
				return
			}
			name := strings.Fields(call)[0]
			occ[name]++
			when := w.before[name] + occ[name]
			in.prepareDir()
			os.Remove("SENTINEL-BEGIN")
			os.Remove("SENTINEL-END")
			cmd := exec.Command("strace", "-f", "-o", "/dev/null", "-e", "trace="+name, "-e", fmt.Sprintf("inject=%s:signal=KILL:when=%d", name, when), self, "crashchild", arg)
			cmd.Env = env
			cmd.Run()
			c.R.Evals++
			c.R.States++
			c.R.Transitions++
			if _, err := os.Stat("SENTINEL-END"); err == nil {
				// the child survived: the injection did not hit the saving thread at this point
				c.Count("injection_missed", 1)
				continue
			}
			if _, err := os.Stat("SENTINEL-BEGIN"); err != nil {
				c.Count("killed_before_window", 1)
				continue
			}
			problems, visible, tmp := c16Inspect(&in, reference)
			c.Outcome(fmt.Sprintf("SIGKILL before %s#%d visible=%d tmp=%d", name, occ[name], visible, tmp), true)
			if len(problems) > 0 {
				c.Violate(Violation{Sig: "C16 partial-file-visible syscall=" + name, Detail: fmt.Sprintf("SIGKILL on entry to system call %d of the save window (%s, occurrence %d): %v", i, call, occ[name], problems),
					Replay: map[string]any{"engine": "strace", "input": in, "syscall": name, "occurrence": occ[name], "when": when, "window": w.calls[:min(len(w.calls), 30)]}, Devs: i})
			}
		}
		if in.Mode != "" {
			os.RemoveAll("testdata")
			return
		}
		// binding of the shim to the real system calls: the in-process operation trace of the same save
		// must correspond to the traced window (writes 1:1, one create, one rename, closes, one unlink)
		in.prepareDir()
		rec := &c16Hook{crashAt: -1}
		vfs.H = rec
		rapid.VerifSaveFailFile(in.File, rapid.VerifVersion(), in.Out, 99, in.Buf)
		vfs.H = nil
		cnt := func(xs []string, pfx string) int {
			n := 0
			for _, x := range xs {
				if strings.HasPrefix(x, pfx) {
					n++
				}
			}
			return n
		}
		pairs := [][2]string{{"write:", "write "}, {"rename:", "renameat"}, {"remove:", "unlinkat"}}
		for _, p := range pairs {
			a, b := cnt(rec.ops, p[0]), cnt(w.calls, p[1])
			ok := a == b
			if p[0] == "remove:" {
				ok = b >= a && b <= 2*a // os.Remove tries unlink and, if that fails, rmdir
			}
			if !ok {
				c.R.HarnessErr = fmt.Sprintf("shim/system-call binding broken: %d %q operations in the shim trace, %d %q system calls in the traced window", a, p[0], b, p[1])
				return
			}
		}
		c.Count("shim_traces_matched_against_syscall_traces", 1)
		os.RemoveAll("testdata")
	}}
}

func c16Units(tier string, seed int64) []Unit {
	quick := tier != "thorough"
	var units []Unit
	lines := []int{0, 1, 3, 40}
	words := []int{0, 1, 5, 5000}
	if !quick {
		lines = []int{0, 1, 3, 200, -1}
	}
	for _, l := range lines {
		for _, w := range words {
			for _, d := range []string{"absent", "present", "older"} {
				in := c16Input{Name: "TestCrash", Lines: l, Words: w, DirPre: d}
				units = append(units, c16ShimUnit(in))
				if quick && !(d == "absent" && (l == 3 || w == 5) || d == "older" && l == 1 && w == 1 || d == "present" && l == 40 && w == 0) {
					continue
				}
				units = append(units, c16StraceUnit(in))
			}
		}
	}
	// histories beyond one save: a second save to the very same name; the whole public Check around the save
	units = append(units, c16StraceUnit(c16Input{Name: "TestCrash", Lines: 3, Words: 5, DirPre: "absent", Mode: "second-save-same-name"}))
	units = append(units, c16StraceUnit(c16Input{Name: "TestCrash", Lines: 0, Words: 0, DirPre: "older", Mode: "second-save-same-name"}))
	units = append(units, c16StraceUnit(c16Input{Name: "TestCrash", Lines: 2, Words: 3, DirPre: "absent", Mode: "check"}))
	units = append(units, c16StraceUnit(c16Input{Name: "TestCrash", Lines: 0, Words: 1, DirPre: "older", Mode: "check"}))
	if !quick {
		units = append(units, c16StraceUnit(c16Input{Name: "TestCrash", Lines: 200, Words: 300, DirPre: "present", Mode: "check"}))
		units = append(units, c16StraceUnit(c16Input{Name: "TestCrash", Lines: 200, Words: 5000, DirPre: "present", Mode: "second-save-same-name"}))
	}
	// the process's temporary directory on another file system than the test's directory
	units = append(units, c16StraceUnit(c16Input{Name: "TestCrash", Lines: 3, Words: 5, DirPre: "absent", TmpDir: "other-fs"}))
	units = append(units, c16StraceUnit(c16Input{Name: "TestCrash", Lines: 40, Words: 0, DirPre: "present", TmpDir: "other-fs"}))
	if !quick {
		units = append(units, c16ShimUnit(c16Input{Name: "Crash/é*", Lines: -1, Words: 5000, DirPre: "absent"}))
	} else {
		units = append(units, c16ShimUnit(c16Input{Name: "Crash/é*", Lines: -1, Words: 1, DirPre: "absent"}))
	}
	return units
}

var _ = strconv.Itoa

func init() {
	Register(&Check{
		ID:    "C16",
		Level: "fault_enumeration",
		Rule: "inputs: output of 0/1/3/40 (thorough 200, and one 1 MiB line) lines x buffer of 0/1/5/5000 words x directory absent/present/holding an older fail file. " +
			"(a) real process death: the save runs in a child under strace; SIGKILL is delivered on entry to every (system call, occurrence) of the fs-affecting calls of the save window (mkdirat, openat, each write, close, renameat, unlinkat), the window being calibrated by two agreeing dry runs; " +
			"(b) in-process file-system shim (r6): a crash before every operation and, for every write, with 0 / 1 / n/2 / n-1 bytes of it persisted. " +
			"Oracle after each crash: every file matching the discovery glob loads and is byte-identical to the uninterrupted save's file (or to the untouched older file); partial data only under the temporary name. distinct = distinct (crash point, visible files, temp files); every crash point is non-trivial.",
		Assumptions: []string{"process death (SIGKILL), not power loss: completed writes are visible, no reordering of completed operations", "strace counts injections per thread; the child locks the saving goroutine to the main thread"},
		Units:       c16Units,
		Budget:      map[string]time.Duration{"quick": 55 * time.Second, "thorough": 20 * time.Minute},
	})
}
