package harness

// C15 - a generator can be shared by concurrently running checks.
// E3: 2-3 controlled threads, each running its own check (own T, own fixed words) against ONE fresh
// generator value, over the generator catalogue; every interleaving within the preemption bound.
// Oracles: no happens-before race; each thread draws exactly what the same check draws alone.

import (
	"fmt"
	"strings"
	"time"

	"pgregory.net/rapid"
	"pgregory.net/rapid/verifrt/vsync"
)

func c15Progs(quick bool) []Prog {
	var out []Prog
	want := map[string]bool{
		"Int64()": true, "IntRange(-3,5)": true, "Float64Range(0.5,1.5)": true, "Bool()": true,
		"SliceOf(IntRange(0,2))": true, "SliceOfDistinct(IntRange(0,2))": true, "MapOf(Bool(),Int8())": true,
		"String()": true, "StringN(-1,-1,3)": true, "StringOf(RuneFrom(ab))": true, "Rune()": true, "RuneFrom(x,Lu)": true,
		`StringMatching("[ab]{2,3}c?")`: true, `StringMatching("(?i)go")`: true, `StringMatching("[α-ω]+")`: true, `SliceOfBytesMatching("[0-9]+")`: true,
		"Just(42)": true, "SampledFrom(5)": true, "OneOf(Just(1),IntRange(10,12),SliceLen)": true, "Ptr(Int8(),true)": true,
		"Map(IntRange(0,3),square)": true, "Int8().Filter(even)": true, "Int8().AsAny()": true, "Custom(pair)": true, "Custom(skip-odd)": true,
		"Deferred(tree)": true, "Make[made]": true, "Make[map[int8]*bool]": true, "Permutation(3)": true,
		"SliceOfN(SliceOfDistinct(IntRange(0,1)),1,2)": true,
	}
	for _, p := range AllProgs() {
		if want[p.Name] {
			out = append(out, p)
		}
	}
	// package-level generators shared by everybody by construction
	out = append(out, Prog{Name: "package-level String()+Rune() via StringN", Tags: "str", New: func() func(t *rapid.T, r *Rec) {
		g := rapid.StringN(0, 2, -1)
		return func(t *rapid.T, r *Rec) { r.Draws = append(r.Draws, Render(g.Draw(t, "s"))) }
	}})
	return out
}

type c15Mode struct {
	name string
	op   func(body func(t *rapid.T, r *Rec), gstr func() string) func(t *rapid.T, r *Rec)
}

func c15Units(tier string, seed int64) []Unit {
	quick := tier != "thorough"
	var units []Unit
	for _, p := range c15Progs(quick) {
		for _, nthreads := range []int{2, 3} {
			if quick && nthreads == 3 && !(p.Name == "Deferred(tree)" || p.Name == "SliceOf(IntRange(0,2))" || strings.HasPrefix(p.Name, "StringMatching")) {
				continue
			}
			p, nthreads := p, nthreads
			units = append(units, Unit{Name: fmt.Sprintf("C15/%s/threads=%d", p.Name, nthreads), Run: func(c *Ctx) {
				tbq := NewTB("C15")
				tbq.Quiet = true
				// fixed words per thread: recordings of PRNG seeds on a private instance
				words := make([][]uint64, nthreads)
				solo := make([]string, nthreads)
				for i := range words {
					if i == 0 {
						// one check runs on the all-zero stream (the minimal test case: empty collections, identity permutation, ...)
						rec := &Rec{}
						zeros := make([]uint64, 64)
						if res := rapid.VerifRunBuf(tbq, zeros, false, c03Prop(p.New(), rec)); res.Kind == rapid.VerifOK {
							words[i] = zeros
						}
					}
					for s := uint64(1); s < 200 && words[i] == nil; s++ {
						rec := &Rec{}
						res := rapid.VerifRunSeed(tbq, uint64(seed)*101+uint64(i)*1000+s, false, c03Prop(p.New(), rec))
						if res.Kind == rapid.VerifOK {
							words[i] = res.Data
							break
						}
					}
					// the reference: the same check alone, on a fresh generator value, outside the scheduler
					rec := &Rec{}
					rapid.VerifRunBuf(tbq, words[i], false, c03Prop(p.New(), rec))
					solo[i] = strings.Join(rec.Draws, "|")
				}
				bound := 2
				if quick && (nthreads == 3 || strings.HasPrefix(p.Name, "Make[") || p.Name == "Deferred(tree)") {
					bound = 1 // many first-use Once/Map points per draw: bound 2 is left to the thorough tier
				}
				if !quick {
					bound = 3
				}
				d := &SchedDFS{Bound: bound, MaxSteps: 20000, MaxExecs: 80000}
				if !quick {
					d.MaxExecs = 1000000
				}
				c.R.Bounds = fmt.Sprintf("preemption bound %d, %d threads", bound, nthreads)
				got := make([]string, nthreads)
				kinds := make([]int, nthreads)
				var shared func(t *rapid.T, r *Rec)
				setup := func() {
					rapid.VerifResetCaches()
					shared = p.New() // ONE fresh generator value for all threads of this execution
				}
				body := func() {
					var hs []*vsync.Handle
					for i := 0; i < nthreads; i++ {
						i := i
						hs = append(hs, vsync.Go(func() {
							rec := &Rec{}
							tb := NewTB("C15")
							tb.Quiet = true
							res := rapid.VerifRunBuf(tb, words[i], false, c03Prop(shared, rec))
							got[i] = strings.Join(rec.Draws, "|")
							kinds[i] = res.Kind
						}))
					}
					for _, h := range hs {
						h.Join()
					}
				}
				d.Explore(c, setup, body, func(ex *vsync.Exec, choices []int) {
					replay := map[string]any{"engine": "sched", "program": p.Name, "threads": nthreads, "schedule": choices, "words": words}
					if ex.Deadlock != "" {
						c.Violate(Violation{Sig: "C15 deadlock prog=" + p.Name, Detail: ex.Deadlock + "\nschedule: " + scheduleString(ex), Replay: replay})
						return
					}
					c.Outcome(strings.Join(got, " || "), preemptions(ex.Points, len(ex.Points)) > 0)
					for _, rc := range racesOf(ex) {
						c.Violate(Violation{Sig: "C15 data-race " + rc, Detail: fmt.Sprintf("unordered conflicting accesses: %s\n%d checks sharing one %s\nschedule: %s", rc, nthreads, p.Name, scheduleString(ex)), Replay: replay, Devs: preemptions(ex.Points, len(ex.Points))})
					}
					for i := range got {
						if got[i] != solo[i] || kinds[i] != rapid.VerifOK {
							c.Violate(Violation{Sig: "C15 draws-differ-from-solo-run prog=" + p.Name, Detail: fmt.Sprintf("check %d drew %s (%s) while sharing the generator; alone it draws %s\nschedule: %s", i, got[i], kindName(kinds[i]), solo[i], scheduleString(ex)), Replay: replay, Devs: preemptions(ex.Points, len(ex.Points))})
						}
					}
				})
			}})
		}
	}
	// String() raced with Draw and with use as a sub-generator
	for _, p := range c15Progs(quick) {
		if !(p.Name == "SliceOf(IntRange(0,2))" || p.Name == "Deferred(tree)" || p.Name == `StringMatching("[ab]{2,3}c?")` || p.Name == "Custom(pair)" || p.Name == "Int8().Filter(even)" || p.Name == "Map(IntRange(0,3),square)") {
			continue
		}
		p := p
		units = append(units, Unit{Name: fmt.Sprintf("C15/%s/String-vs-Draw-vs-subgenerator", p.Name), Run: func(c *Ctx) {
			tbq := NewTB("C15")
			tbq.Quiet = true
			var g *rapid.Generator[int]
			mk := func() *rapid.Generator[int] {
				body := p.New()
				return rapid.Custom(func(t *rapid.T) int {
					rec := &Rec{}
					body(t, rec)
					return len(strings.Join(rec.Draws, "|"))
				})
			}
			var w []uint64
			for s := uint64(1); s < 200; s++ {
				gg := rapid.SliceOfN(mk(), 1, 2)
				res := rapid.VerifRunSeed(tbq, s, false, func(t *rapid.T) { gg.Draw(t, "x") })
				if res.Kind == rapid.VerifOK {
					w = res.Data
					break
				}
			}
			soloStr := mk().String()
			d := &SchedDFS{Bound: 1, MaxSteps: 20000, MaxExecs: 100000}
			if !quick {
				d.Bound = 2
				d.MaxExecs = 1500000
			}
			var strs [2]string
			d.Explore(c, func() { rapid.VerifResetCaches(); g = mk() }, func() {
				h1 := vsync.Go(func() { strs[0] = g.String() })
				h2 := vsync.Go(func() {
					sub := rapid.SliceOfN(g, 1, 2) // use as a sub-generator of a new collection
					tb := NewTB("C15")
					tb.Quiet = true
					rapid.VerifRunBuf(tb, w, false, func(t *rapid.T) { sub.Draw(t, "x") })
				})
				h3 := vsync.Go(func() { strs[1] = g.String() })
				h4 := vsync.Go(func() {
					tb := NewTB("C15")
					tb.Quiet = true
					rapid.VerifRunBuf(tb, w[min(2, len(w)):], false, func(t *rapid.T) { g.Draw(t, "direct") }) // draw directly, never having asked for String()
				})
				h1.Join()
				h2.Join()
				h3.Join()
				h4.Join()
			}, func(ex *vsync.Exec, choices []int) {
				replay := map[string]any{"engine": "sched", "program": p.Name, "schedule": choices}
				c.Outcome(strs[0]+strs[1], preemptions(ex.Points, len(ex.Points)) > 0)
				if ex.Deadlock != "" {
					c.Violate(Violation{Sig: "C15 deadlock prog=" + p.Name, Detail: ex.Deadlock, Replay: replay})
					return
				}
				for _, rc := range racesOf(ex) {
					c.Violate(Violation{Sig: "C15 data-race " + rc, Detail: fmt.Sprintf("unordered conflicting accesses: %s\nString() || sub-generator Draw || String() on one Custom(%s)\nschedule: %s", rc, p.Name, scheduleString(ex)), Replay: replay, Devs: preemptions(ex.Points, len(ex.Points))})
				}
				if strs[0] != soloStr || strs[1] != soloStr {
					c.Violate(Violation{Sig: "C15 String-differs prog=" + p.Name, Detail: fmt.Sprintf("String() returned %q and %q, alone %q", strs[0], strs[1], soloStr), Replay: replay})
				}
			})
		}})
	}
	// many draws in flight on ONE shared recursive generator: two checks are both 60+ levels deep inside the same
	// Deferred / OneOf / Custom values at the same time (anything a generator value counts, caches or pools per draw in
	// progress is shared by them), for three shapes of recursion
	for _, shape := range []string{"Deferred(OneOf(Just,Custom(self)))", "Custom(self) through a package-level variable", "OneOf(Just,Map(Deferred(self)))"} {
		shape := shape
		if quick && shape != "OneOf(Just,Map(Deferred(self)))" {
			continue // every level of a Custom function adds a dozen scheduling points (about 50 s per shape): thorough tier
		}
		units = append(units, Unit{Name: "C15/deep-recursion-in-flight/" + shape, Run: func(c *Ctx) {
			mk := func() *rapid.Generator[int] {
				var self *rapid.Generator[int]
				switch shape {
				case "Deferred(OneOf(Just,Custom(self)))":
					self = rapid.Deferred(func() *rapid.Generator[int] {
						return rapid.OneOf(rapid.Just(0), rapid.Custom(func(t *rapid.T) int { return 1 + self.Draw(t, "tail") }))
					})
				case "Custom(self) through a package-level variable":
					self = rapid.Custom(func(t *rapid.T) int {
						if !rapid.Bool().Draw(t, "more") {
							return 0
						}
						return 1 + self.Draw(t, "tail")
					})
				default:
					var inner *rapid.Generator[int]
					inner = rapid.Deferred(func() *rapid.Generator[int] { return self })
					self = rapid.OneOf(rapid.Just(0), rapid.Map(inner, func(v int) int { return v + 1 }))
				}
				return self
			}
			tbq := NewTB("C15")
			tbq.Quiet = true
			// a stream that recurses 60..90 levels and then stops: n all-ones words followed by zeros, n found by trying
			var words []uint64
			depth := 0
			for n := 1; n < 400 && words == nil; n++ {
				w := make([]uint64, n+8)
				for i := 0; i < n; i++ {
					w[i] = ^uint64(0)
				}
				g := mk()
				d := -1
				res := rapid.VerifRunBuf(tbq, w, false, func(t *rapid.T) { d = g.Draw(t, "v") })
				if res.Kind == rapid.VerifOK && d >= 60 {
					words, depth = w, d
				}
			}
			if words == nil {
				c.Violate(Violation{Sig: "C15 deep-recursion harness-found-no-deep-stream shape=" + shape, Detail: "no buffer of ones followed by zeros recurses 60 levels deep"})
				return
			}
			c.R.Bounds = fmt.Sprintf("2 threads, each %d levels deep in the shared generator, preemption bound 1 (quick) / 2", depth)
			d := &SchedDFS{Bound: 1, MaxSteps: 40000, MaxExecs: 20000}
			if !quick {
				d.Bound, d.MaxExecs = 2, 300000
			}
			got := make([]int, 2)
			kinds := make([]int, 2)
			var shared *rapid.Generator[int]
			setup := func() {
				rapid.VerifResetCaches()
				shared = mk()
			}
			body := func() {
				var hs []*vsync.Handle
				for i := 0; i < 2; i++ {
					i := i
					hs = append(hs, vsync.Go(func() {
						tb := NewTB("C15")
						tb.Quiet = true
						got[i] = -1
						res := rapid.VerifRunBuf(tb, words, false, func(t *rapid.T) { got[i] = shared.Draw(t, "v") })
						kinds[i] = res.Kind
					}))
				}
				for _, h := range hs {
					h.Join()
				}
			}
			d.Explore(c, setup, body, func(ex *vsync.Exec, choices []int) {
				replay := map[string]any{"engine": "sched", "program": shape, "threads": 2, "schedule": choices, "words_ones": len(words) - 8}
				if ex.Deadlock != "" {
					c.Violate(Violation{Sig: "C15 deadlock prog=" + shape, Detail: ex.Deadlock + "\nschedule: " + scheduleString(ex), Replay: replay})
					return
				}
				c.Outcome(fmt.Sprint(got, kinds), preemptions(ex.Points, len(ex.Points)) > 0)
				for _, rc := range racesOf(ex) {
					c.Violate(Violation{Sig: "C15 data-race " + rc, Detail: fmt.Sprintf("unordered conflicting accesses: %s\n2 checks deep inside one %s\nschedule: %s", rc, shape, scheduleString(ex)), Replay: replay, Devs: preemptions(ex.Points, len(ex.Points))})
				}
				for i := range got {
					if got[i] != depth || kinds[i] != rapid.VerifOK {
						c.Violate(Violation{Sig: "C15 draws-differ-from-solo-run prog=" + shape, Detail: fmt.Sprintf("check %d drew %d (%s) while another check was deep inside the same generator; alone it draws %d\nschedule: %s", i, got[i], kindName(kinds[i]), depth, scheduleString(ex)), Replay: replay, Devs: preemptions(ex.Points, len(ex.Points))})
					}
				}
			})
		}})
	}
	// two DIFFERENT expressions that meet in the process-wide caches (compiled regexps, character-class generators,
	// expanded tables): each check draws what it draws alone in a process that has built nothing else
	for _, pair := range [][2]string{{`[0-9A-Fa-f]{4}`, `(?i)[0-9a-f]{4}`}, {`\d\d`, `(?i)\d\d`}, {`[\p{L}\x{1F300}-\x{1FAFF}]{3}`, `[\p{L}\x{1F300}-\x{1FAFF}\x{20000}-\x{2A6DF}]{3}`}, {`[\p{Lu}\p{Nd}]{2}`, `[\p{Lu}\p{Nd}_]{2}`}} {
		pair := pair
		units = append(units, Unit{Name: fmt.Sprintf("C15/two-expressions-meeting-in-the-caches/%s|%s", pair[0], pair[1]), Run: func(c *Ctx) {
			tbq := NewTB("C15")
			tbq.Quiet = true
			words := make([][]uint64, 2)
			solo := make([]string, 2)
			for i := range solo {
				// fixed words: the recording of a PRNG seed, taken alone with empty caches
				for sd := uint64(1); sd < 50 && words[i] == nil; sd++ {
					rapid.VerifResetCaches()
					g := rapid.StringMatching(pair[i])
					res := rapid.VerifRunSeed(tbq, uint64(seed)*131+sd*17+uint64(i), false, func(t *rapid.T) { solo[i] = g.Draw(t, "s") + "|" + g.Draw(t, "s2") })
					if res.Kind == rapid.VerifOK {
						words[i] = res.Data
					}
				}
				if words[i] == nil {
					c.R.HarnessErr = "no valid run of " + pair[i]
					return
				}
			}
			d := &SchedDFS{Bound: 1, MaxSteps: 20000, MaxExecs: 20000}
			if !quick {
				d.Bound, d.MaxExecs = 2, 300000
			}
			c.R.Bounds = fmt.Sprintf("preemption bound %d, 2 threads", d.Bound)
			got := make([]string, 2)
			kinds := make([]int, 2)
			setup := func() { rapid.VerifResetCaches() }
			body := func() {
				var hs []*vsync.Handle
				for i := 0; i < 2; i++ {
					i := i
					hs = append(hs, vsync.Go(func() {
						tb := NewTB("C15")
						tb.Quiet = true
						g := rapid.StringMatching(pair[i])
						got[i] = ""
						res := rapid.VerifRunBuf(tb, words[i], false, func(t *rapid.T) { got[i] = g.Draw(t, "s") + "|" + g.Draw(t, "s2") })
						kinds[i] = res.Kind
					}))
				}
				for _, h := range hs {
					h.Join()
				}
			}
			d.Explore(c, setup, body, func(ex *vsync.Exec, choices []int) {
				replay := map[string]any{"engine": "sched", "program": pair, "threads": 2, "schedule": choices}
				if ex.Deadlock != "" {
					c.Violate(Violation{Sig: "C15 deadlock prog=two-expressions", Detail: ex.Deadlock + "\nschedule: " + scheduleString(ex), Replay: replay})
					return
				}
				c.Outcome(strings.Join(got, " || "), preemptions(ex.Points, len(ex.Points)) > 0)
				for _, rc := range racesOf(ex) {
					c.Violate(Violation{Sig: "C15 data-race " + rc, Detail: fmt.Sprintf("unordered conflicting accesses: %s\nchecks using %q and %q\nschedule: %s", rc, pair[0], pair[1], scheduleString(ex)), Replay: replay, Devs: preemptions(ex.Points, len(ex.Points))})
				}
				for i := range got {
					if got[i] != solo[i] || kinds[i] != rapid.VerifOK {
						c.Violate(Violation{Sig: "C15 draws-differ-from-solo-run prog=two-expressions-meeting-in-the-caches", Detail: fmt.Sprintf("the check using StringMatching(%q) drew %q (%s) next to a check using %q; alone it draws %q\nschedule: %s", pair[i], got[i], kindName(kinds[i]), pair[1-i], solo[i], scheduleString(ex)), Replay: replay, Devs: preemptions(ex.Points, len(ex.Points))})
					}
				}
			})
		}})
	}
	units = append(units, siblingsUnit("C15"))
	nfree := 60
	if !quick {
		nfree = 600
	}
	units = append(units, freeRunUnit("C15", nfree))
	// an immutable specification also when it is a broken one: a Deferred whose function panics (it builds a
	// generator with invalid arguments) behaves the same at every use - a check that shares it reports what it
	// reports alone, and the engine's own replay of the failing case sees the same failure (never "flaky")
	units = append(units, Unit{Name: "C15/Deferred-whose-function-panics/sequential-sharing", Run: func(c *Ctx) {
		mk := func() *rapid.Generator[string] {
			return rapid.Deferred(func() *rapid.Generator[string] { return rapid.StringMatching(`[a-`) })
		}
		report := func(g *rapid.Generator[string], name string) string {
			prog := &LazyProgram{Name: name, Base: func(string, string) Beh { return BPass }, Body: func(t *rapid.T, e *Env) {
				e.cur.Draws = g.Draw(t, "s")
			}}
			env := NewEnv(nil, prog.Base)
			log := RunCheck(prog, env, Config{Checks: 3, Seed: 7, ShrinkMS: 3, NoFailFile: true, Name: "TestC15Deferred"})
			c.R.Evals++
			c.R.States++
			c.R.Transitions += int64(len(env.Invs))
			v := log.Verdict()
			first := v.ErrText
			if i := strings.Index(first, "\n"); i >= 0 {
				first = first[:i]
			}
			return v.Class + ": " + first
		}
		alone := report(mk(), "alone")
		shared := mk()
		firstUser := report(shared, "first user")
		secondUser := report(shared, "second user")
		c.Outcome(alone, true)
		replay := map[string]any{"engine": "check", "generator": "Deferred(StringMatching(invalid))"}
		if strings.HasPrefix(alone, "flaky") || strings.HasPrefix(firstUser, "flaky") {
			c.Violate(Violation{Sig: "C15 broken-Deferred-changes-between-uses what=flaky-within-one-check", Detail: fmt.Sprintf("a check drawing from a Deferred whose function always panics reports %q", firstUser), Replay: replay})
		}
		if secondUser != alone {
			c.Violate(Violation{Sig: "C15 broken-Deferred-changes-between-uses what=second-check-differs", Detail: fmt.Sprintf("alone a check reports %q; as the second user of the shared generator value it reports %q", alone, secondUser), Replay: replay})
		}
	}})
	// a check that FAILS inside a shared generator (its Custom function signals the failure on the T it was given)
	// leaves nothing behind in the generator value: the next check that uses it reports what it reports alone
	units = append(units, Unit{Name: "C15/failing-check-then-another-check/sequential-sharing", Run: func(c *Ctx) {
		for _, kind := range []string{"Errorf", "Fatalf", "Fail", "panic", "Skip"} {
			limit := 50
			mk := func() *rapid.Generator[int] {
				return rapid.Custom(func(t *rapid.T) int {
					v := rapid.IntRange(0, 99).Draw(t, "v")
					if v > limit {
						switch kind {
						case "Errorf":
							t.Errorf("value %d above the limit", v)
						case "Fatalf":
							t.Fatalf("value %d above the limit", v)
						case "Fail":
							t.Fail()
						case "panic":
							panic("value above the limit")
						default:
							t.Skip("value above the limit")
						}
					}
					return v
				})
			}
			report := func(g *rapid.Generator[int], name string) string {
				prog := &LazyProgram{Name: name, Base: func(string, string) Beh { return BPass }, Body: func(t *rapid.T, e *Env) {
					e.cur.Draws = fmt.Sprint(g.Draw(t, "x"), g.Draw(t, "y"))
				}}
				env := NewEnv(nil, prog.Base)
				log := RunCheck(prog, env, Config{Checks: 30, Seed: 7, ShrinkMS: 20, NoFailFile: true, Name: "TestC15Failing"})
				c.R.Evals++
				c.R.States++
				c.R.Transitions += int64(len(env.Invs))
				v := log.Verdict()
				first := v.ErrText
				if i := strings.Index(first, "\n"); i >= 0 {
					first = first[:i]
				}
				var ds []string
				for _, inv := range env.Invs {
					ds = append(ds, inv.Draws)
				}
				return v.Class + ": " + first + " draws " + strings.Join(ds, ";")
			}
			limit = 200
			alone := report(mk(), "alone")
			shared := mk()
			limit = 50
			failing := report(shared, "failing-first-user")
			limit = 200
			second := report(shared, "second-user")
			c.Outcome(kind+": "+trunc(failing, 60), true)
			if kind != "Skip" && !strings.HasPrefix(failing, "failed") && !strings.HasPrefix(failing, "panic") {
				c.Violate(Violation{Sig: "C15 failing-check harness-first-user-did-not-fail kind=" + kind, Detail: failing})
			}
			if second != alone {
				c.Violate(Violation{Sig: "C15 draws-differ-from-solo-run prog=Custom(fails-by-" + kind + ") what=second-check-after-a-failing-one",
					Detail: fmt.Sprintf("alone a check reports %q; after another check has failed inside the shared generator it reports %q", trunc(alone, 300), trunc(second, 300)),
					Replay: map[string]any{"engine": "lazyprop", "program": "Custom(fails-by-" + kind + ")"}})
			}
		}
	}})
	return units
}

func init() {
	Register(&Check{
		ID:    "C15",
		Level: "model_checking",
		Rule: "E3 sched: for 31 generator expressions (scalars, collections, distinct, strings, regexp-based with the process-wide caches reset before every execution, Just/SampledFrom/OneOf/Ptr/Map/Filter/AsAny/Custom/Deferred/Make/Permutation, package-level rune generators) 2 or 3 controlled threads each run their own check (own T, own fixed words) against ONE fresh generator value; " +
			"plus String() || use-as-sub-generator || String() || direct Draw; every interleaving at sync-operation granularity within the preemption bound (2 quick, 3 thorough). Oracles: no happens-before race on any instrumented access; every check draws exactly what it draws alone; String() identical. " +
			"distinct = distinct combined outcomes; non-trivial = schedule with at least one preemption.",
		Assumptions: []string{"sequentially consistent interleavings at sync-operation granularity + happens-before race freedom (DRF-SC); the shim's Once/Map semantics stand in for package sync",
			"accesses inside the standard library (regexp, unicode tables) are not instrumented"},
		Units:  c15Units,
		Budget: map[string]time.Duration{"quick": 55 * time.Second, "thorough": 25 * time.Minute},
	})
}
