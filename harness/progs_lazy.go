package harness

// Base programs for E2. Each records, per invocation, the rendered draws (the key)
// and the lines rapid is expected to log for top-level draws ("label: %#v").

import (
	"fmt"
	"strings"

	"pgregory.net/rapid"
)

// ctxLive: the context of every call must be live when the call starts. A dead one is reported as a
// failure that the harness did *not* signal, so the "failed without falsification" / "innocent case
// blamed" clauses fire.
func ctxLive(t *rapid.T) {
	if err := t.Context().Err(); err != nil {
		t.Fatalf("harness: T.Context() is already cancelled at the start of the call: %v", err)
	}
}

func (e *Env) noteDraw(label string, v any) {
	e.cur.DrawLog = append(e.cur.DrawLog, fmt.Sprintf("%s: %#v", label, v))
}

// progUniqueCtx: one practically unique Uint64 per test case; the decision is taken in the given context.
//
//	body      - in the property body
//	custom    - inside a Custom generator function (on the inner *T)
//	custom2   - inside a Custom nested in a Custom
//	action    - inside a Repeat action
//	invariant - inside the Repeat invariant (the "" action), after the first action
func progUniqueCtx(ctx string, base Beh) *LazyProgram {
	p := &LazyProgram{Name: "unique/" + ctx + "/base=" + base.String(), Base: func(c, d string) Beh {
		if c == ctx {
			return base
		}
		return BPass
	}}
	switch ctx {
	case "body":
		p.Body = func(t *rapid.T, e *Env) {
			ctxLive(t)
			x := rapid.Uint64().Draw(t, "x")
			e.noteDraw("x", x)
			e.cur.Draws = fmt.Sprint(x)
			e.Do(t, "body", fmt.Sprint(x))
		}
	case "custom":
		p.Body = func(t *rapid.T, e *Env) {
			g := rapid.Custom(func(it *rapid.T) uint64 {
				x := rapid.Uint64().Draw(it, "x")
				e.Do(it, "custom", fmt.Sprint(x))
				return x
			})
			v := g.Draw(t, "v")
			e.noteDraw("v", v)
			e.cur.Draws = fmt.Sprint(v)
		}
	case "custom-guarded":
		// the draw is made by code that guards itself with recover() (a worker that must not die, a retry
		// wrapper): a failure signalled with the methods of the T given to the generator function is on record
		// all the same, like one signalled on the property's own T
		p.Body = func(t *rapid.T, e *Env) {
			g := rapid.Custom(func(it *rapid.T) uint64 {
				x := rapid.Uint64().Draw(it, "x")
				e.cur.Draws = fmt.Sprint(x)
				e.Do(it, "custom-guarded", fmt.Sprint(x))
				return x
			})
			func() {
				defer func() { _ = recover() }()
				v := g.Draw(t, "v")
				e.noteDraw("v", v)
			}()
		}
	case "custom2-guarded":
		// the same two levels deep: the failure is signalled on the innermost T, the panic is recovered in the property
		p.Body = func(t *rapid.T, e *Env) {
			inner := rapid.Custom(func(it *rapid.T) uint64 {
				x := rapid.Uint64().Draw(it, "x")
				e.cur.Draws = fmt.Sprint(x)
				e.Do(it, "custom2-guarded", fmt.Sprint(x))
				return x
			})
			middle := rapid.Custom(func(it *rapid.T) uint64 { return inner.Draw(it, "inner") })
			outer := rapid.Custom(func(it *rapid.T) uint64 { return middle.Draw(it, "middle") + 1 })
			func() {
				defer func() { _ = recover() }()
				v := outer.Draw(t, "v")
				e.noteDraw("v", v)
			}()
		}
	case "custom2":
		p.Body = func(t *rapid.T, e *Env) {
			inner := rapid.Custom(func(it *rapid.T) uint64 {
				x := rapid.Uint64().Draw(it, "x")
				e.Do(it, "custom2", fmt.Sprint(x))
				return x
			})
			outer := rapid.Custom(func(it *rapid.T) uint64 { return inner.Draw(it, "inner") + 1 })
			v := outer.Draw(t, "v")
			e.noteDraw("v", v)
			e.cur.Draws = fmt.Sprint(v)
		}
	case "action":
		p.Body = func(t *rapid.T, e *Env) {
			step := 0
			t.Repeat(map[string]func(*rapid.T){
				"act": func(t *rapid.T) {
					x := rapid.Uint64().Draw(t, "x")
					step++
					e.cur.Draws += fmt.Sprint(x) + ","
					e.Do(t, "action", fmt.Sprintf("%d:%d", step, x))
				},
			})
		}
	case "invariant":
		p.Body = func(t *rapid.T, e *Env) {
			var xs []string
			t.Repeat(map[string]func(*rapid.T){
				"act": func(t *rapid.T) {
					x := rapid.Uint64().Draw(t, "x")
					xs = append(xs, fmt.Sprint(x))
					e.cur.Draws = strings.Join(xs, ",")
				},
				"": func(t *rapid.T) {
					if len(xs) > 0 {
						e.Do(t, "invariant", strings.Join(xs, ","))
					}
				},
			})
		}
	default:
		panic("harness: unknown context " + ctx)
	}
	return p
}

// progPreDecide: a decision is taken *before anything is drawn*, keyed by the invocation's index
// (user code with a counter: "skip the first call"), then one unique draw and the usual decision.
// A test case that skips here consumes no data at all.
func progPreDecide() *LazyProgram {
	return &LazyProgram{
		Name: "pre-decision-then-unique-draw",
		Body: func(t *rapid.T, e *Env) {
			ctxLive(t)
			// the counter-based skipping happens only while fresh cases are generated: the failing case and all
			// its replays behave identically, so the property is reproducible and "flaky" would be wrong
			if b := BPass; e.InSearchPhase() {
				b = e.Decide("pre", fmt.Sprint(e.cur.Idx))
				_ = b
			}
			if e.InSearchPhase() && len(e.cur.Decisions) > 0 && e.cur.Decisions[len(e.cur.Decisions)-1].Beh.Skips() {
				e.cur.Skipped = true
				t.Skip("skipped before drawing anything")
			}
			x := rapid.Uint64().Draw(t, "x")
			e.noteDraw("x", x)
			e.cur.Draws = fmt.Sprint(x)
			e.Do(t, "body", fmt.Sprint(x))
		},
		Base: func(ctx, d string) Beh { return BPass },
	}
}

// progThreshold: x := Int16(); fails at site A iff x >= T (in the body).
func progThreshold(T int16) *LazyProgram {
	return &LazyProgram{
		Name: fmt.Sprintf("int16>=%d", T),
		Body: func(t *rapid.T, e *Env) {
			ctxLive(t)
			x := rapid.Int16().Draw(t, "x")
			e.noteDraw("x", x)
			e.cur.Draws = fmt.Sprint(x)
			e.Do(t, "body", fmt.Sprint(x))
		},
		Base: func(ctx, d string) Beh {
			var x int
			fmt.Sscan(d, &x)
			if x >= int(T) {
				return BFatalA
			}
			return BPass
		},
	}
}

// progNonFatal: x := Int16(); Errorf iff x >= T.
func progNonFatal(T int16) *LazyProgram {
	p := progThreshold(T)
	p.Name = fmt.Sprintf("int16>=%d:Errorf", T)
	p.Base = func(ctx, d string) Beh {
		var x int
		fmt.Sscan(d, &x)
		if x >= int(T) {
			return BErrorf
		}
		return BPass
	}
	return p
}

// progNonFatalThenFatal: x := Int16(); x > 10 fails non-fatally and goes on; x > 1000 additionally dies in Fatalf at site A.
// The failure found first (large x) is at the fatal site; smaller failing inputs are the non-fatal site.
func progNonFatalThenFatal() *LazyProgram {
	p := progThreshold(0)
	p.Name = "int16: >10 Errorf, >1000 Errorf;Fatalf@A"
	p.Base = func(ctx, d string) Beh {
		var x int
		fmt.Sscan(d, &x)
		switch {
		case x > 1000:
			return BErrorfThenFatalA
		case x > 10:
			return BErrorf
		}
		return BPass
	}
	return p
}

// progCustomMayDrawNothing: n := IntRange(0,3); items := Custom(n draws) - for n == 0 the Custom function
// returns without drawing, which rapid reports with an assertion panic (documented misuse, but a
// deterministic function of the draws all the same); x >= 1000 fails at site A.
func progCustomMayDrawNothing() *LazyProgram {
	return &LazyProgram{
		Name: "custom-may-draw-nothing",
		Body: func(t *rapid.T, e *Env) {
			ctxLive(t)
			n := rapid.IntRange(0, 3).Draw(t, "n")
			e.noteDraw("n", n)
			e.cur.Draws = fmt.Sprint(n)
			if n == 0 {
				// the library's own assertion is this invocation's failure
				e.cur.Signalled = append(e.cur.Signalled, BPanicStr)
				e.cur.Decisions = append(e.cur.Decisions, Decision{"library", "library|group did not use any data", BPanicStr})
			}
			items := rapid.Custom(func(it *rapid.T) []int8 {
				out := []int8{}
				for i := 0; i < n; i++ {
					out = append(out, rapid.Int8().Draw(it, "item"))
				}
				return out
			}).Draw(t, "items")
			e.noteDraw("items", items)
			x := rapid.Int16().Draw(t, "x")
			e.noteDraw("x", x)
			e.cur.Draws = fmt.Sprint(n, items, x)
			e.Do(t, "body", fmt.Sprint(x))
		},
		Base: func(ctx, d string) Beh {
			var x int
			fmt.Sscan(d, &x)
			if x >= 1000 {
				return BFatalA
			}
			return BPass
		},
	}
}

// progTwoSites: x, y := Uint8(), Uint8(); site A iff x >= 100 && y >= 10; site B iff x < 100 && y >= 50; panic iff x == 7 && y >= 3.
func progTwoSites() *LazyProgram {
	return &LazyProgram{
		Name: "two-sites",
		Body: func(t *rapid.T, e *Env) {
			x := rapid.Uint8().Draw(t, "x")
			e.noteDraw("x", x)
			y := rapid.Uint8().Draw(t, "y")
			e.noteDraw("y", y)
			e.cur.Draws = fmt.Sprintf("%d,%d", x, y)
			e.Do(t, "body", e.cur.Draws)
		},
		Base: func(ctx, d string) Beh {
			var x, y int
			fmt.Sscanf(d, "%d,%d", &x, &y)
			switch {
			case x == 7 && y >= 3:
				return BPanicStr
			case x >= 100 && y >= 10:
				return BFatalA
			case x < 100 && y >= 50:
				return BFatalB
			}
			return BPass
		},
	}
}

// progTwoDeepSites: like progTwoSites, but both Fatalf calls sit below the same 40-deep recursion: only the
// frames beyond the innermost 41 tell the two sites apart. The site found first needs the bigger input.
func progTwoDeepSites() *LazyProgram {
	p := progTwoSites()
	p.Name = "two-sites-below-a-deep-recursion"
	p.Base = func(ctx, d string) Beh {
		var x, y int
		fmt.Sscanf(d, "%d,%d", &x, &y)
		switch {
		case x >= 100 && y >= 10:
			return BFatalDeepA
		case x < 100 && y >= 50:
			return BFatalDeepB
		}
		return BPass
	}
	return p
}

// progSameMessage: two pairs of failure sites whose messages coincide (FailNow at C and D, division by
// zero at two places): only the call stack tells them apart. The site found first needs a bigger input.
func progSameMessage() *LazyProgram {
	p := progTwoSites()
	p.Name = "two-sites-same-message"
	p.Base = func(ctx, d string) Beh {
		var x, y int
		fmt.Sscanf(d, "%d,%d", &x, &y)
		switch {
		case x >= 100 && y >= 10:
			return BFailNowC
		case x < 100 && y >= 50:
			return BFailNowD
		case x >= 100 && y == 3:
			return BPanicDivA
		case x < 100 && y == 4:
			return BPanicDivB
		}
		return BPass
	}
	return p
}

// progGen: a rejection-based generator consumer; fails (behaviour fb) iff pred(rendered value).
func progGen[V any](name string, mk func() *rapid.Generator[V], fails func(v V) bool, fb Beh) *LazyProgram {
	g := mk()
	return &LazyProgram{
		Name: name,
		Body: func(t *rapid.T, e *Env) {
			v := g.Draw(t, "v")
			e.noteDraw("v", v)
			e.cur.Draws = Render(v)
			if fails(v) {
				e.Do(t, "body", "F"+Render(v))
			} else {
				e.Do(t, "body", "P"+Render(v))
			}
		},
		Base: func(ctx, d string) Beh {
			if strings.HasPrefix(d, "F") {
				return fb
			}
			return BPass
		},
	}
}

func rejectionProgs() []*LazyProgram {
	return []*LazyProgram{
		progGen("SliceOfDistinct(IntRange(0,2))/len>=2", func() *rapid.Generator[[]int] { return rapid.SliceOfDistinct(rapid.IntRange(0, 2), rapid.ID[int]) },
			func(s []int) bool { return len(s) >= 2 }, BFatalA),
		progGen("MapOf(Bool(),Int8())/has-true", func() *rapid.Generator[map[bool]int8] { return rapid.MapOf(rapid.Bool(), rapid.Int8()) },
			func(m map[bool]int8) bool { _, ok := m[true]; return ok }, BFatalA),
		progGen("StringN(-1,-1,3)/len>=2", func() *rapid.Generator[string] { return rapid.StringN(-1, -1, 3) },
			func(s string) bool { return len(s) >= 2 }, BPanicStr),
		progGen("Int8().Filter(even)/>=4", func() *rapid.Generator[int8] { return rapid.Int8().Filter(func(i int8) bool { return i%2 == 0 }) },
			func(i int8) bool { return i >= 4 }, BFatalB),
		progGen("SliceOfNDistinct(IntRange(0,3),1,3)/sum>=3", func() *rapid.Generator[[]int] {
			return rapid.SliceOfNDistinct(rapid.IntRange(0, 3), 1, 3, rapid.ID[int])
		},
			func(s []int) bool {
				n := 0
				for _, x := range s {
					n += x
				}
				return n >= 3
			}, BErrorf),
	}
}

// progCaseCollidingActions: a state machine whose action names differ only by case; the trace of actions is the key.
func progCaseCollidingActions() *LazyProgram {
	return &LazyProgram{
		Name: "machine(put,Put,PUT,get)",
		Body: func(t *rapid.T, e *Env) {
			var tr []string
			t.Repeat(map[string]func(*rapid.T){
				"put": func(t *rapid.T) { tr = append(tr, fmt.Sprintf("put%d", rapid.IntRange(0, 3).Draw(t, "v"))) },
				"Put": func(t *rapid.T) { tr = append(tr, fmt.Sprintf("Put%v", rapid.Bool().Draw(t, "v"))) },
				"PUT": func(t *rapid.T) { tr = append(tr, "PUT") },
				"get": func(t *rapid.T) { tr = append(tr, "get") },
			})
			e.cur.Draws = strings.Join(tr, ",")
			e.Do(t, "body", e.cur.Draws)
		},
		Base: func(ctx, d string) Beh {
			if strings.Count(d, "PUT") >= 2 && strings.Contains(d, "Puttrue") {
				return BFatalA
			}
			return BPass
		},
	}
}

// progMachine: a Repeat state machine: "inc" draws a bool and counts; "skipper" skips; "drawskip" draws then skips;
// the invariant decides on the counter. Base: the invariant fails at site A once the counter reaches 3.
func progMachine() *LazyProgram {
	return &LazyProgram{
		Name: "machine(inc,skipper,drawskip)",
		Body: func(t *rapid.T, e *Env) {
			n := 0
			var hist []string
			t.Repeat(map[string]func(*rapid.T){
				"inc": func(t *rapid.T) {
					b := rapid.Bool().Draw(t, "b")
					if b {
						n++
					}
					hist = append(hist, fmt.Sprint(b))
					e.cur.Draws = strings.Join(hist, ",")
				},
				"skipper": func(t *rapid.T) { t.Skip("never") },
				"drawskip": func(t *rapid.T) {
					rapid.Bool().Draw(t, "ds")
					t.SkipNow()
				},
				"": func(t *rapid.T) {
					e.Do(t, "invariant", fmt.Sprintf("n=%d", n))
				},
			})
		},
		Base: func(ctx, d string) Beh {
			var n int
			fmt.Sscanf(d, "n=%d", &n)
			if n >= 3 {
				return BFatalA
			}
			return BPass
		},
	}
}

// progMachineRejectedStepLeavesTraces: like progMachine, but the action that skips after drawing has already
// changed the state (a counter of attempts that the invariant's message names). The property is a
// deterministic function of its draws; the bits of a rejected step are part of them.
func progMachineRejectedStepLeavesTraces() *LazyProgram {
	return &LazyProgram{
		Name: "machine(inc,attempt-then-skip)",
		Body: func(t *rapid.T, e *Env) {
			n, attempts := 0, 0
			t.Repeat(map[string]func(*rapid.T){
				"inc": func(t *rapid.T) {
					if rapid.Bool().Draw(t, "b") {
						n++
					}
				},
				"attempt": func(t *rapid.T) {
					attempts++ // changed before the action finds out that it does not apply
					if rapid.IntRange(0, 3).Draw(t, "a") != 0 {
						t.Skip("not applicable")
					}
				},
				"": func(t *rapid.T) {
					e.cur.Draws = fmt.Sprintf("n=%d attempts=%d", n, attempts)
					e.Do(t, "invariant", e.cur.Draws)
				},
			})
		},
		Base: func(ctx, d string) Beh {
			var n, a int
			fmt.Sscanf(d, "n=%d attempts=%d", &n, &a)
			if n >= 3 {
				return BFatalA
			}
			return BPass
		},
	}
}

// progRejectedAttemptsDecideTheSite: two failure sites, and which one is reached depends on what rejected attempts
// left behind - a Custom generator counts its attempts (a connection opened per attempt), the property fails at
// site A when more than one attempt was needed and at site B when the value is small. Cutting the rejected
// attempts out of a recording (pruning) turns an A-failure into a B-failure or into a passing case.
func progRejectedAttemptsDecideTheSite() *LazyProgram {
	return &LazyProgram{
		Name: "rejected-attempts-decide-the-site",
		Body: func(t *rapid.T, e *Env) {
			attempts := 0
			g := rapid.Custom(func(t *rapid.T) int {
				attempts++
				v := rapid.IntRange(0, 63).Draw(t, "v")
				if v%4 == 3 {
					t.Skip("rejected attempt")
				}
				return v
			})
			x := g.Draw(t, "x")
			y := rapid.IntRange(0, 63).Draw(t, "y")
			e.cur.Draws = fmt.Sprintf("x=%d y=%d attempts=%d", x, y, attempts)
			e.Do(t, "body", e.cur.Draws)
		},
		Base: func(ctx, d string) Beh {
			var x, y, a int
			fmt.Sscanf(d, "x=%d y=%d attempts=%d", &x, &y, &a)
			if a >= 2 && y >= 8 {
				return BFatalA
			}
			if x < 10 && y >= 40 {
				return BFatalB
			}
			return BPass
		},
	}
}

// progCustomCleanup: a Custom generator that registers a cleanup on its inner T and decides there; the body decides too.
func progCustomCleanup() *LazyProgram {
	return &LazyProgram{
		Name: "custom-with-cleanup",
		Body: func(t *rapid.T, e *Env) {
			g := rapid.Custom(func(it *rapid.T) int8 {
				x := rapid.Int8().Draw(it, "x")
				it.Cleanup(func() {})
				e.Do(it, "custom", fmt.Sprint(x))
				return x
			})
			v := g.Draw(t, "v")
			e.noteDraw("v", v)
			e.cur.Draws = fmt.Sprint(v)
			e.Do(t, "body", fmt.Sprint(v))
		},
		Base: func(ctx, d string) Beh {
			var x int
			fmt.Sscan(d, &x)
			if ctx == "body" && x >= 20 {
				return BFatalA
			}
			return BPass
		},
	}
}

// AllFalsifying lists every failure kind of C02.
var AllFalsifying = []Beh{BErrorf, BError, BFail, BFatalA, BFatal, BFailNowC, BPanicStr, BPanicErr, BPanicStruct, BPanicNil, BNilDeref, BIndexOOR,
	BCleanupErrorf, BCleanupPanic, BCleanupFatal, BCleanupCleanupErrorf, BGoErrorf, BGoFail, BErrorfReject, BErrorEmpty, BErrorfEmpty,
	BCleanupSkipThenFatal, BCleanupSkipThenPanic, BCleanupRejectThenFatal, BCleanupRejectThenPanic, BErrorfThenFatalA, BCleanupErrorfSkip, BErrorfSkip}

// ExpectedText returns a substring the failure message must contain when b is reported for input msg.
func ExpectedText(b Beh, msg string) string {
	switch b {
	case BErrorf, BErrorfSkip, BErrorfReject:
		return "nonfatal: " + msg
	case BCleanupErrorfSkip, BCleanupErrorfCleanupSkip:
		return "nonfatal in cleanup: " + msg
	case BError:
		return "nonfatal:" + msg // fmt.Sprint puts no space between two string operands
	case BFail:
		return "(*T).Fail() called"
	case BFatalA, BCleanupSkipThenFatal, BCleanupRejectThenFatal, BErrorfThenFatalA:
		return "site A (100%, %d %v): " + msg
	case BCleanupSkipThenPanic, BCleanupRejectThenPanic:
		return "boom %v 5% " + msg
	case BFatalDeepA, BFatalDeepB:
		return "deep site: " + msg
	case BFatalB:
		return "site B: " + msg
	case BFailNowC, BFailNowD:
		return "(*T).FailNow() called"
	case BPanicDivA, BPanicDivB:
		return "integer divide by zero"
	case BFatal:
		return "fatal:"
	case BPanicStr:
		return "boom %v 5% " + msg
	case BPanicErr:
		return "boom error " + msg
	case BPanicStruct:
		return "custom error"
	case BPanicNil:
		return "nil"
	case BNilDeref:
		return "nil pointer dereference"
	case BIndexOOR:
		return "index out of range"
	case BCleanupErrorf:
		return "nonfatal in cleanup: " + msg
	case BCleanupPanic:
		return "boom in cleanup " + msg
	case BCleanupFatal:
		return "fatal in cleanup: " + msg
	case BCleanupCleanupErrorf:
		return "nonfatal in nested cleanup: " + msg
	case BGoErrorf:
		return "nonfatal from goroutine: " + msg
	case BGoFail:
		return "(*T).Fail() called"
	}
	return ""
}
