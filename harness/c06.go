package harness

// C06 - a failure is persisted and automatically replayed first on the next run.
// Two-run histories: Check (fails, saves) -> Check again in the same directory with no flag,
// and -> Check with -rapid.failfile=<path> from an empty directory; over test names, captured
// outputs (any bytes, very long lines), bitstream sizes and failure kinds.

import (
	"fmt"
	"os"
	"path/filepath"
	"strconv"
	"strings"
	"time"

	"pgregory.net/rapid"
)

type c06Scen struct {
	name   string
	chunks []string
	size   string // empty, one, many
	kind   Beh
	// passFirst > 0: the first passFirst test cases of run 1 pass (learnt by a dry run), so that the failing case
	// is a later one; baseSeed != 0 replaces the base seed of run 1 (seeds near 2^64: the failing case's own seed wraps)
	passFirst int
	baseSeed  uint64
	debugvis  bool // both runs are made with -rapid.debugvis
}

func c06Prog(sc c06Scen) *LazyProgram {
	return &LazyProgram{
		Name: "c06",
		Body: func(t *rapid.T, e *Env) {
			var key string
			switch sc.size {
			case "empty":
				key = "nodraw"
			case "one":
				x := rapid.Bool().Draw(t, "b")
				key = fmt.Sprint(x)
			case "few":
				x := rapid.Int16().Draw(t, "x")
				y := rapid.SliceOfN(rapid.Uint8(), 0, 3).Draw(t, "y")
				key = fmt.Sprint(x, y)
			case "custom-fails-before-its-first-draw":
				// the failure is raised by a generator function before it has drawn anything: the recording ends
				// with groups that were opened and never got any data
				g := rapid.Custom(func(it *rapid.T) int {
					key = "nodraw-in-custom"
					e.cur.Draws = key
					for _, c := range sc.chunks {
						it.Log(c)
					}
					e.Do(it, "body", key)
					return rapid.Int().Draw(it, "x")
				})
				_ = rapid.Bool().Draw(t, "first")
				g.Draw(t, "g")
				return
			case "steps":
				// a state machine: the invariant fails when two steps have been made. The failing call is preceded by
				// points at which rapid itself looks at the failure state of the T (start of Repeat, every action)
				n := 0
				t.Repeat(map[string]func(*rapid.T){
					"inc": func(t *rapid.T) { rapid.Bool().Draw(t, "b"); n++ },
					"": func(t *rapid.T) {
						if n == 2 { // once: a non-fatal kind lets the machine go on
							e.cur.Draws = fmt.Sprint("steps", n)
							for _, c := range sc.chunks {
								t.Log(c)
							}
							e.Do(t, "body", e.cur.Draws)
						}
					},
				})
				return
			case "many":
				s := rapid.SliceOfN(rapid.Uint64(), 3000, 3000).Draw(t, "s")
				key = fmt.Sprint(len(s), s[0], s[len(s)-1], hashStr(fmt.Sprint(s)))
			}
			e.cur.Draws = key
			for _, c := range sc.chunks {
				t.Log(c)
			}
			e.Do(t, "body", key)
		},
		Base: func(ctx, d string) Beh { return sc.kind },
	}
}

func c06Names(quick bool) []string {
	syms := []string{"a", "Z", "9", "-", "_", "/", "\\", ".", " ", "*", "?", "[", "#", "é", "世", "\x00", "\n"}
	names := []string{"CON", "com1", "LPT³", "nul", "Test/sub/deep", strings.Repeat("n", 200), strings.Repeat("n", 228), strings.Repeat("m", 229), strings.Repeat("世", 85), "a/../b", "..", "x]", "日本語/テスト"}
	for _, a := range syms {
		names = append(names, a)
		for _, b := range syms {
			names = append(names, a+b)
			if !quick {
				for _, cc := range []string{"a", "/", "*", "世", "\x00"} {
					names = append(names, a+b+cc)
				}
			}
		}
	}
	return names
}

func c06Chunks() []string {
	return []string{"", "\n", "#", "# x", "\r\n", "v0.4.8#1\n0x1", "\xff\xfe bad utf8", "nul\x00byte", "plain line",
		strings.Repeat("L", 65000), strings.Repeat("M", 65533), strings.Repeat("N", 65536), strings.Repeat("O", 70000), strings.Repeat("P", 1<<20),
		strings.Repeat("short\n", 300), strings.Repeat("l\n", 1100), strings.Repeat("many lines\n", 5000)}
}

func c06Run(c *Ctx, sc c06Scen, seed uint64) { c06RunAs(c, sc, seed, "C06") }

// c06RunAs: the fail -> rerun histories; prop is the property on whose behalf they are checked (C11 uses
// them for "the reproduction of a fail-file case is judged on its own execution").
func c06RunAs(c *Ctx, sc c06Scen, seed uint64, prop string) {
	prog := c06Prog(sc)
	CleanFailFiles()
	desc := fmt.Sprintf("name=%q chunks=%v size=%s kind=%s", trunc(sc.name, 30), chunkDesc(sc.chunks), sc.size, sc.kind)
	replay := map[string]any{"name": sc.name, "chunks": chunkDesc(sc.chunks), "size": sc.size, "kind": sc.kind.String(), "seed": seed}
	viol := func(clause, detail string) {
		if n := len(rapid.VerifSafeFilename(sc.name)); n > 228 && n <= 255 {
			clause += " name=sanitized-form-of-229-to-255-bytes" // fits in a file name, but not together with "-<time>-<pid>.fail"
		}
		c.Violate(Violation{Sig: prop + " " + clause, Detail: detail + "\nscenario: " + desc, Replay: replay})
	}
	cfg := Config{Checks: 3 + sc.passFirst, Seed: seed, ShrinkMS: 40, Name: sc.name, DebugVis: sc.debugvis}
	if sc.debugvis {
		defer func() {
			vis, _ := filepath.Glob("vis-*.html")
			for _, f := range vis {
				os.Remove(f)
			}
		}()
	}
	if sc.baseSeed != 0 {
		cfg.Seed = sc.baseSeed
	}
	if sc.passFirst > 0 {
		dry := NewEnv(nil, func(string, string) Beh { return BPass })
		dcfg := cfg
		dcfg.Checks, dcfg.NoFailFile = sc.passFirst, true
		RunCheck(&LazyProgram{Name: "c06-dry", Body: prog.Body, Base: func(string, string) Beh { return BPass }}, dry, dcfg)
		pass := map[string]bool{}
		for i, inv := range dry.Invs {
			if i < sc.passFirst {
				pass[inv.Draws] = true
			}
		}
		prog.Base = func(ctx, d string) Beh {
			if pass[d] {
				return BPass
			}
			return sc.kind
		}
	}
	env1 := NewEnv(nil, prog.Base)
	log1 := RunCheck(prog, env1, cfg)
	c.R.Evals++
	c.R.States++
	c.R.Transitions += int64(len(env1.Invs))
	v1 := log1.Verdict()
	if log1.Escaped != nil {
		viol("escaped-panic run=1", fmt.Sprintf("%v", log1.Escaped))
		return
	}
	if v1.Class != "failed" && v1.Class != "panic" {
		viol("run1-did-not-fail", "class "+v1.Class+" "+trunc(v1.ErrText, 200))
		return
	}
	if len(log1.Files) != 1 {
		viol("fail-file-count run=1", fmt.Sprintf("%d files after the failing run: %v; log: %s", len(log1.Files), sortedKeys(log1.Files), trunc(log1.TB.LogText(), 300)))
		return
	}
	path := sortedKeys(log1.Files)[0]
	wantDir := "testdata/rapid/" + rapid.VerifSafeFilename(sc.name) + "/"
	if !strings.HasPrefix(path, wantDir) {
		viol("fail-file-location", fmt.Sprintf("file %q is not under %q", path, wantDir))
	}
	_, _, words, lerr := rapid.VerifLoadFailFile(path)
	last1 := env1.Invs[len(env1.Invs)-1]
	fin, _ := finalBuffer(env1)
	if lerr == nil && !equalWords(words, fin) {
		viol("fail-file-words-differ", fmt.Sprintf("file holds %s, the minimized test case is %s", fmtWords(words), fmtWords(fin)))
	}
	// run 2: same directory, no flag
	check2 := func(which string, cfg2 Config) {
		env2 := NewEnv(nil, prog.Base)
		log2 := RunCheck(prog, env2, cfg2)
		c.R.Evals++
		c.R.Transitions += int64(len(env2.Invs))
		v2 := log2.Verdict()
		c.Outcome(fmt.Sprintf("%s %s after=%d files=%d", which, v2.Class, v2.After, len(log2.Files)), true)
		if log2.Escaped != nil {
			viol("escaped-panic run="+which, fmt.Sprintf("%v", log2.Escaped))
			return
		}
		cause := ""
		if lt := log2.TB.LogText(); strings.Contains(lt, "ignoring fail file") || strings.Contains(lt, "no longer valid") {
			i := strings.Index(lt, "[rapid] ignoring")
			if i < 0 {
				i = strings.Index(lt, "no longer valid")
			}
			cause = " reason=" + sigOf(trunc(lt[i:], 60))
		}
		if len(env2.Invs) == 0 || env2.Invs[0].Draws != last1.Draws || len(env2.Seeds) > 0 && env2.Seeds[0].InvIdx == 0 && len(env2.Invs) > 0 && false {
			got := "<no invocation>"
			if len(env2.Invs) > 0 {
				got = env2.Invs[0].Draws
			}
			viol("not-replayed-first run="+which+cause, fmt.Sprintf("the saved case drew %s; the first test case of the next run drew %s\nlog: %s", trunc(last1.Draws, 100), trunc(got, 100), trunc(log2.TB.LogText(), 400)))
			return
		}
		if (v2.Class != "failed" && v2.Class != "panic") || v2.After != 0 {
			viol("not-failed-after-0 run="+which+cause, fmt.Sprintf("next run: %s after %d tests (want %s after 0)\n%s", v2.Class, v2.After, v1.Class, trunc(v2.ErrText, 300)))
			return
		}
		if exp := ExpectedText(sc.kind, last1.Draws); exp != "" && !strings.Contains(v2.ErrText, exp) {
			viol("another-failure-reported run="+which, fmt.Sprintf("want %q in %q", exp, trunc(v2.ErrText, 300)))
		}
		if len(env2.Seeds) > 0 {
			viol("random-case-before-or-after-replay run="+which, fmt.Sprintf("PRNG streams were seeded (%d) although the fail file fails", len(env2.Seeds)))
		}
		if v2.SeedStr != "" {
			// a seed named in the report of a fail-file failure is a promise like any other printed seed:
			// with the fail files out of the way it must make the first test case draw the same values
			ps, err := strconv.ParseUint(v2.SeedStr, 10, 64)
			os.Rename("testdata", "testdata.aside")
			cfg3 := cfg2
			cfg3.Seed, cfg3.FailFile, cfg3.NoFailFile = ps, "", true
			env3 := NewEnv(nil, prog.Base)
			RunCheck(prog, env3, cfg3)
			c.R.Evals++
			os.RemoveAll("testdata")
			os.Rename("testdata.aside", "testdata")
			if err != nil || len(env3.Invs) == 0 || env3.Invs[0].Draws != last1.Draws {
				got := "<none>"
				if len(env3.Invs) > 0 {
					got = env3.Invs[0].Draws
				}
				viol("seed-printed-with-fail-file-does-not-reproduce run="+which, fmt.Sprintf("the report of the fail-file failure says (or -rapid.seed=%s); the saved case drew %s, with that seed the first test case drew %s", v2.SeedStr, trunc(last1.Draws, 100), trunc(got, 100)))
			}
		}
		if which == "same-dir" && len(log2.Files) != 1 {
			viol("second-file-written", fmt.Sprintf("files after run 2: %v", sortedKeys(log2.Files)))
		}
	}
	cfg2 := cfg
	cfg2.Seed = seed + 1000
	check2("same-dir", cfg2)
	// -rapid.nofailfile only says "do not write fail files": the stored one is still found and replayed first
	cfgN := cfg2
	cfgN.NoFailFile = true
	check2("same-dir+nofailfile", cfgN)
	// run 3: explicit -rapid.failfile from an otherwise empty directory
	data := log1.Files[path]
	CleanFailFiles()
	os.WriteFile("moved.fail", []byte(data), 0o644)
	cfg3 := cfg2
	cfg3.FailFile = "moved.fail"
	check2("flag", cfg3)
	os.Remove("moved.fail")
	CleanFailFiles()
	// history 3: the failing run itself was started with a stale -rapid.failfile (written by another version):
	// the stale file is ignored, the failure found by the random search is persisted all the same and replayed next time
	os.WriteFile("stale.fail", []byte("# stale\nv0.0.1#3\n0x1"), 0o644)
	cfgS := cfg
	cfgS.FailFile = "stale.fail"
	envS := NewEnv(nil, prog.Base)
	logS := RunCheck(prog, envS, cfgS)
	c.R.Evals++
	vS := logS.Verdict()
	os.Remove("stale.fail")
	if vS.Class != "failed" && vS.Class != "panic" {
		viol("run-with-stale-flag-did-not-fail", "class "+vS.Class)
	} else if len(logS.Files) != 1 {
		viol("failure-not-persisted run=with-stale-flag", fmt.Sprintf("%d files under testdata after a failing run that was given a stale -rapid.failfile: %v", len(logS.Files), sortedKeys(logS.Files)))
	} else {
		last1 = envS.Invs[len(envS.Invs)-1]
		check2("after-stale-flag", cfg2)
		// history 4: the rerun itself is given a stale -rapid.failfile too: the stored file is still
		// found ("any fail files found are replayed first") and runs before any random test case
		os.WriteFile("stale.fail", []byte("# stale\nv0.0.1#3\n0x1"), 0o644)
		cfg4 := cfg2
		cfg4.FailFile = "stale.fail"
		check2("stored+stale-flag", cfg4)
		os.Remove("stale.fail")
	}
	CleanFailFiles()
}

func chunkDesc(cs []string) []string {
	var out []string
	for _, c := range cs {
		if len(c) > 24 {
			out = append(out, fmt.Sprintf("%q..x%d", c[:6], len(c)))
		} else {
			out = append(out, fmt.Sprintf("%q", c))
		}
	}
	return out
}

func c06Units(tier string, seed int64) []Unit {
	quick := tier != "thorough"
	var units []Unit
	kinds := []Beh{BFatalA, BPanicStr, BErrorf, BNilDeref, BCleanupPanic, BFailNowC}
	sizes := []string{"empty", "one", "few", "many"}
	chunks := c06Chunks()
	var scens []c06Scen
	// every name x one output; every output sequence x few names; sizes x kinds
	for i, n := range c06Names(quick) {
		scens = append(scens, c06Scen{name: n, chunks: []string{chunks[i%9]}, size: sizes[i%3], kind: kinds[i%len(kinds)]})
	}
	for i, a := range chunks {
		scens = append(scens, c06Scen{name: "TestOut", chunks: []string{a}, size: sizes[i%3], kind: kinds[i%len(kinds)]})
		for j, b := range chunks {
			if quick && (len(a) > 1000 && len(b) > 1000) {
				continue
			}
			scens = append(scens, c06Scen{name: "Out/é", chunks: []string{a, b}, size: sizes[(i+j)%3], kind: BFatalA})
		}
	}
	scens = append(scens, c06Scen{name: "TestNoLog", chunks: nil, size: "few", kind: BFatalA})
	for _, s := range append(append([]string{}, sizes...), "steps") {
		for _, k := range kinds {
			scens = append(scens, c06Scen{name: "TestSK", chunks: []string{"plain line"}, size: s, kind: k})
		}
	}
	// the failing case is the k-th one of a run whose base seed is just below 2^64: the case's own seed wraps around
	// (to exactly 0 for some k) - the failure is persisted and replayed like any other
	for _, d := range []uint64{0, 1, 2, 3, 5, 6, 9, 10, 14, 15} {
		for _, k := range []int{1, 2, 3, 4, 5} {
			scens = append(scens, c06Scen{name: "TestWrap", chunks: []string{"plain line"}, size: "few", kind: BFatalA, passFirst: k, baseSeed: ^uint64(0) - d})
		}
	}
	// with the shrinker's visualization switched on (-rapid.debugvis), for every program shape
	for _, sz := range []string{"empty", "one", "few", "steps", "custom-fails-before-its-first-draw"} {
		for _, k := range []Beh{BFatalA, BPanicStr, BErrorf} {
			scens = append(scens, c06Scen{name: "TestVis", chunks: []string{"plain line"}, size: sz, kind: k, debugvis: true})
		}
	}
	scens = append(scens, c06Scen{name: "TestNoVis", chunks: []string{"plain line"}, size: "custom-fails-before-its-first-draw", kind: BFatalA})
	const per = 12
	for i := 0; i < len(scens); i += per {
		lo, hi := i, min(i+per, len(scens))
		units = append(units, Unit{Name: fmt.Sprintf("C06/scenarios-%d-%d", lo, hi-1), Run: func(c *Ctx) {
			for k := lo; k < hi; k++ {
				if c.Expired() {
					c.Cap("time budget")
					return
				}
				c06Run(c, scens[k], uint64(seed)*13+uint64(k)+1)
			}
		}})
	}
	return units
}

func init() {
	Register(&Check{
		ID:    "C06",
		Level: "model_checking",
		Rule: "two-run histories fail -> rerun (same directory without flag, and -rapid.failfile from an empty directory) enumerated over test names (all strings of length <=2 (quick) / <=3 (thorough) over a 17-symbol alphabet incl. separators, glob and reserved characters, unicode, NUL, newline; plus reserved device names, 200-byte names), " +
			"captured outputs (all sequences of <=2 chunks from 15 incl. empty, '#', CRLF, a fake header, invalid UTF-8, NUL, lines of 65000/65533/65536/70000/2^20 bytes, 300 short lines), bitstream sizes (no draw, 1 bit, few words, 3000 64-bit draws) and 6 failure kinds. " +
			"Oracle: exactly one file, holding the minimized words; the next run invokes the property with those draws before any PRNG stream is seeded, fails after 0 tests with the same failure, writes no second file. distinct = distinct (run, class, after, #files) per unit; every scenario is non-trivial (a file is written and replayed).",
		Assumptions: []string{"file-system is the sandbox's (case-sensitive, 255-byte names)"},
		Units:       c06Units,
		Budget:      map[string]time.Duration{"quick": 50 * time.Second, "thorough": 15 * time.Minute},
	})
}
