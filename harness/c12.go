package harness

// C12 - minimization reaches the exact boundary on threshold properties.
// Starting points: every failing bitstream E1 finds for the generator within its bounds (sign coin x
// bias alphabet x intbits alphabet), PRNG seeds, and for collections streams that produce k..k+3
// elements; each is minimized by the real shrinker without a time limit (VerifShrink).

import (
	"fmt"
	"math"
	"strings"
	"time"

	"pgregory.net/rapid"
)

type c12Case struct {
	top   bool // threshold in the top bit-length band of a 64-bit kind: reached mostly through the overflow-to-max path
	name  string
	prop  func(t *rapid.T, out *string) // draws, renders into *out, fails iff beyond the threshold
	want  string                        // rendering of the exact boundary
	depth int
}

func c12Signed[I signedInt](kind string, gen func() *rapid.Generator[I], bits int) []c12Case {
	var cs []c12Case
	min := -(int64(1) << uint(bits-1))
	max := int64(1)<<uint(bits-1) - 1
	var ths []int64
	if bits == 8 {
		for t := min; t <= max; t++ {
			ths = append(ths, t)
		}
	} else {
		for j := 0; j < bits; j++ {
			p := int64(1) << uint(j)
			for _, t := range []int64{p - 1, p, p + 1, -(p - 1), -p, -(p + 1)} {
				if t >= min && t <= max {
					ths = append(ths, t)
				}
			}
		}
		ths = append(ths, min, max, max-1, min+1)
	}
	seen := map[string]bool{}
	for _, th := range ths {
		for _, dir := range []string{">=", "<="} {
			th, dir := th, dir
			var want int64
			if dir == ">=" {
				want = th
				if th <= 0 {
					want = 0
				}
			} else {
				want = th
				if th >= 0 {
					want = 0
				}
			}
			name := fmt.Sprintf("%s x%s%d", kind, dir, th)
			if seen[name] {
				continue
			}
			seen[name] = true
			g := gen()
			style := len(cs) % 6
			cs = append(cs, c12Case{top: bits == 64 && (th >= 1<<61 || th <= -(1<<61)), name: name, want: fmt.Sprint(want), depth: 4, prop: func(t *rapid.T, out *string) {
				x := int64(g.Draw(t, "x"))
				*out = fmt.Sprint(x)
				if (dir == ">=" && x >= th) || (dir == "<=" && x <= th) {
					c12Fail(t, style, fmt.Sprint(x), int(x), x > 1<<20 || x < -(1<<20))
				}
			}})
		}
	}
	return cs
}

func c12Unsigned[I unsignedInt](kind string, gen func() *rapid.Generator[I], bits int) []c12Case {
	var cs []c12Case
	var ths []uint64
	max := uint64(math.MaxUint64)
	if bits < 64 {
		max = uint64(1)<<uint(bits) - 1
	}
	if bits == 8 {
		for t := uint64(0); t <= max; t++ {
			ths = append(ths, t)
		}
	} else {
		for j := 0; j < bits; j++ {
			p := uint64(1) << uint(j)
			ths = append(ths, p-1, p, p+1)
		}
		ths = append(ths, max, max-1)
	}
	seen := map[uint64]bool{}
	for _, th := range ths {
		if th > max || seen[th] {
			continue
		}
		seen[th] = true
		th := th
		g := gen()
		style := len(cs) % 6
		cs = append(cs, c12Case{top: bits == 64 && th >= 1<<62, name: fmt.Sprintf("%s x>=%d", kind, th), want: fmt.Sprint(th), depth: 3, prop: func(t *rapid.T, out *string) {
			x := uint64(g.Draw(t, "x"))
			*out = fmt.Sprint(x)
			if x >= th {
				c12Fail(t, style, fmt.Sprint(x), int(x), x > 1<<20)
			}
		}})
	}
	return cs
}

func c12IntCases() []c12Case {
	var cs []c12Case
	cs = append(cs, c12Signed("Int8", rapid.Int8, 8)...)
	cs = append(cs, c12Signed("Int16", rapid.Int16, 16)...)
	cs = append(cs, c12Signed("Int32", rapid.Int32, 32)...)
	cs = append(cs, c12Signed("Int64", rapid.Int64, 64)...)
	cs = append(cs, c12Signed("Int", rapid.Int, 64)...)
	cs = append(cs, c12Unsigned("Uint8", rapid.Uint8, 8)...)
	cs = append(cs, c12Unsigned("Byte", rapid.Byte, 8)...)
	cs = append(cs, c12Unsigned("Uint16", rapid.Uint16, 16)...)
	cs = append(cs, c12Unsigned("Uint32", rapid.Uint32, 32)...)
	cs = append(cs, c12Unsigned("Uint64", rapid.Uint64, 64)...)
	cs = append(cs, c12Unsigned("Uint", rapid.Uint, 64)...)
	cs = append(cs, c12Unsigned("Uintptr", rapid.Uintptr, 64)...)
	return cs
}

// collSource answers the coin of every "...@repeat" group with "continue" until want elements were
// started, then "stop"; all other draws come from the pattern.
type collSource struct {
	want     int
	started  int
	pattern  func(i int, n int) uint64
	i        int
	inRepeat bool
}

func (s *collSource) IsEnded() bool { return s.i > 4000 }

func (s *collSource) DrawBits(n int) uint64 {
	s.i++
	if s.i > 4000 {
		// every real stream is finite: an unbiased draw that keeps being rejected would otherwise spin forever
		rapid.VerifOverrun()
	}
	if s.inRepeat {
		s.inRepeat = false
		if s.started < s.want {
			s.started++
			return mask(n)
		}
		return 0
	}
	return s.pattern(s.i, n) & mask(n)
}
func (s *collSource) BeginGroup(label string, standalone bool) {
	if strings.HasSuffix(label, "@repeat") {
		s.inRepeat = true
	}
}
func (s *collSource) EndGroup(discard bool) {}

func c12Shrink(c *Ctx, cs c12Case, start []uint64, how string, devs int) {
	tb := NewTB("C12")
	tb.Quiet = true
	var out string
	prop := func(t *rapid.T) { cs.prop(t, &out) }
	ExecBegin("shrink " + cs.name + " from " + how)
	first, buf, res := rapid.VerifShrink(tb, start, time.Hour, prop)
	ExecEnd()
	c.R.Evals++
	if !c12Failed(first.Kind) {
		return // not a failing start
	}
	c.Count("failing_starts", 1)
	// replay the minimized buffer
	out = ""
	rep := rapid.VerifRunBuf(tb, buf, false, prop)
	c.Outcome(cs.name+" -> "+out, true)
	replay := map[string]any{"engine": "shrink", "case": cs.name, "start_words": start, "how": how, "result_words": buf}
	if !c12Failed(rep.Kind) || !c12Failed(res.Kind) {
		c.Violate(Violation{Sig: "C12 minimized-case-does-not-fail case=" + cs.name, Detail: fmt.Sprintf("start %s (%s): minimized buffer %s replays as %s", fmtWords(start), how, fmtWords(buf), kindName(rep.Kind)), Replay: replay, Devs: devs})
		return
	}
	if out != cs.want {
		band := ""
		if strings.Contains(cs.name, "Int") || strings.Contains(cs.name, "Uint") || strings.Contains(cs.name, "Byte") {
			band = " kind=" + strings.Fields(cs.name)[0]
		}
		c.Violate(Violation{Sig: "C12 not-the-boundary" + band + " " + sigOf(strings.SplitN(cs.name, " ", 2)[1]),
			Detail: fmt.Sprintf("%s: minimization from %s (%s) ended at %s, the exact boundary is %s (result words %s)", cs.name, fmtWords(start), how, out, cs.want, fmtWords(buf)), Replay: replay, Devs: devs})
	}
}

func c12Units(tier string, seed int64) []Unit {
	quick := tier != "thorough"
	var units []Unit
	cases := c12IntCases()
	const per = 24
	for i := 0; i < len(cases); i += per {
		lo, hi := i, min(i+per, len(cases))
		units = append(units, Unit{Name: fmt.Sprintf("C12/int-cases-%d-%d(%s..)", lo, hi-1, cases[lo].name), Run: func(c *Ctx) {
			tb := NewTB("C12")
			tb.Quiet = true
			for _, cs := range cases[lo:hi] {
				if c.Expired() {
					c.Cap("time budget")
					return
				}
				cs := cs
				// starting points 1: every failing answer sequence within the E1 bounds
				for _, base := range []func(int) uint64{BaseZero, BaseOnes} {
					e := &BitDFS{Base: base, Depth: cs.depth, MaxDev: 2, PRNGFaithful: true}
					e.Alpha = LevelAlpha(AlphaAll(3, AlphaEdge), AlphaAll(2, AlphaCoin))
					e.MaxExecs = 600
					if !quick {
						e.MaxDev = 3
						e.Alpha = LevelAlpha(AlphaAll(8, AlphaFull(32)), AlphaAll(3, AlphaFull(8)), AlphaAll(2, AlphaEdge))
						e.MaxExecs = 30000
					}
					e.Explore(c, func(src *Source, devs int) {
						var out string
						res := rapid.VerifRunSource(tb, src, false, func(t *rapid.T) { cs.prop(t, &out) })
						if c12Failed(res.Kind) {
							c12Shrink(c, cs, res.Data, "explorer-found failing stream", devs)
						}
					})
				}
				// starting points 2: PRNG seeds
				ns := 6
				if !quick {
					ns = 200
				}
				if cs.top {
					ns = 600 // such failures are found through the ~2% overflow path: enough seeds to start from it
				}
				for s := 0; s < ns; s++ {
					var out string
					res := rapid.VerifRunSeed(tb, uint64(seed)*977+uint64(s)+1, false, func(t *rapid.T) { cs.prop(t, &out) })
					if c12Failed(res.Kind) {
						c12Shrink(c, cs, res.Data, fmt.Sprintf("PRNG seed %d", uint64(seed)*977+uint64(s)+1), 9)
					}
				}
			}
		}})
	}
	// through the public Check with a time limit that is orders of magnitude more than needed:
	// -rapid.shrinktime=5s on the virtual clock (1 ms per invocation) = 5000 invocations for a one-draw property
	// the single-word minimizer on its own, over the whole 64-bit range: for a threshold property x >= T it ends, and ends
	// at T, from every start u >= T - starts and thresholds in the top half (where u+T overflows 64 bits), at powers of
	// two +-1, at bit patterns that clearing bits cannot turn into T
	units = append(units, Unit{Name: "C12/single-word-minimizer-over-the-64-bit-range", Run: func(c *Ctx) {
		pts := []uint64{0, 1, 2, 3, 1000, 0x5555555555555555, 0x8000000000000000, 0x8000000000000001, 0xaaaaaaaaaaaaaaab, 0xd000000000000001, 0xe75a80e8f8e699bc, 0xfffffffffffffffe, 0xffffffffffffffff, 0xffff0000ffff0001, 0xc123456789abcdef}
		for k := uint(1); k < 64; k++ {
			pts = append(pts, 1<<k-1, 1<<k, 1<<k+1)
		}
		for _, T := range pts {
			for _, u := range pts {
				if u < T {
					continue
				}
				calls := 0
				ExecBegin(fmt.Sprintf("minimize(%#x, x >= %#x)", u, T))
				got := rapid.VerifMinimize(u, func(x uint64) bool { calls++; return x >= T })
				ExecEnd()
				c.R.Evals++
				c.R.States++
				c.R.Transitions += int64(calls)
				if u == T || T == 0 {
					c.Outcome(fmt.Sprintf("trivial calls<=%d", calls/50*50+50), false)
				} else {
					c.Outcome(fmt.Sprintf("calls<=%d", calls/50*50+50), true)
				}
				if got != T {
					c.Violate(Violation{Sig: "C12 single-word-minimizer-not-the-boundary", Detail: fmt.Sprintf("minimize(%#x, x >= %#x) = %#x after %d evaluations", u, T, got, calls), Replay: map[string]any{"engine": "minimize", "u": u, "T": T}})
					return
				}
			}
		}
	}})
	units = append(units, Unit{Name: "C12/through-Check/shrinktime=5s-is-enough", Run: func(c *Ctx) {
		pick := map[string]bool{"Int16 x>=100": true, "Int16 x<=-257": true, "Int8 x>=127": true, "Uint8 x>=200": true, "Int64 x>=1099511627776": true,
			"Int64 x<=-4611686018427387905": true, "Uint64 x>=9223372036854775808": true, "Uint32 x>=65537": true, "Int32 x<=-1": true, "Uint16 x>=1": true}
		for _, cs := range cases {
			if !pick[cs.name] {
				continue
			}
			cs := cs
			prog := &LazyProgram{Name: cs.name, Base: func(string, string) Beh { return BPass }, Body: func(t *rapid.T, e *Env) {
				var out string
				defer func() { e.cur.Draws = out }()
				cs.prop(t, &out)
			}}
			for _, shrinkMS := range []int{5000, 30000, -1} {
				found := 0
				for sd := uint64(1); sd <= 40 && found < 6; sd++ {
					env := NewEnv(nil, prog.Base)
					log := RunCheck(prog, env, Config{Checks: 400, Seed: uint64(seed)*53 + sd, ShrinkMS: shrinkMS, NoFailFile: true, Name: "TestC12"})
					c.R.Evals++
					c.R.Transitions += int64(len(env.Invs))
					v := log.Verdict()
					if v.Class != "failed" && v.Class != "panic" {
						continue
					}
					found++
					last := env.Invs[len(env.Invs)-1]
					c.Outcome(fmt.Sprintf("%s shrinktime=%dms -> %s", cs.name, shrinkMS, last.Draws), true)
					if last.Draws != cs.want {
						c.Violate(Violation{Sig: "C12 not-the-boundary-through-Check " + sigOf(cs.name), Detail: fmt.Sprintf("%s, -rapid.seed=%d, -rapid.shrinktime=%dms on a clock that advances 1 ms per invocation (%d invocations happened): Check presents %s, the exact boundary is %s", cs.name, uint64(seed)*53+sd, shrinkMS, len(env.Invs), last.Draws, cs.want),
							Replay: map[string]any{"engine": "check", "case": cs.name, "seed": uint64(seed)*53 + sd, "shrinkms": shrinkMS}})
					}
				}
				c.Count("failing_runs_through_check", int64(found))
			}
		}
	}})
	// collections: at least k elements
	type collKind struct {
		name string
		mk   func(k int) c12Case
	}
	colls := []collKind{
		{"SliceOf(Int64())", func(k int) c12Case {
			g := rapid.SliceOf(rapid.Int64())
			want := make([]int64, k)
			return c12Case{name: fmt.Sprintf("SliceOf(Int64()) len>=%d", k), want: Render(want), prop: func(t *rapid.T, out *string) {
				s := g.Draw(t, "s")
				if s == nil {
					s = []int64{}
				}
				*out = Render(s)
				if len(s) >= k {
					t.Fatalf("too long: %d", len(s))
				}
			}}
		}},
		{"SliceOf(Uint8())", func(k int) c12Case {
			g := rapid.SliceOf(rapid.Uint8())
			want := make([]uint8, k)
			return c12Case{name: fmt.Sprintf("SliceOf(Uint8()) len>=%d", k), want: Render(want), prop: func(t *rapid.T, out *string) {
				s := g.Draw(t, "s")
				if s == nil {
					s = []uint8{}
				}
				*out = Render(s)
				if len(s) >= k {
					t.Fatalf("too long: %d", len(s))
				}
			}}
		}},
		{"String()", func(k int) c12Case {
			g := rapid.String()
			return c12Case{name: fmt.Sprintf("String() runes>=%d", k), want: fmt.Sprint(k), prop: func(t *rapid.T, out *string) {
				s := g.Draw(t, "s")
				n := len([]rune(s))
				*out = fmt.Sprint(n)
				if n >= k {
					t.Fatalf("too long: %d", n)
				}
			}}
		}},
		// collections that reject elements (duplicate keys): the rejected attempts are pruned from the recording
		// that minimization starts from, and the result still has exactly k elements
		{"SliceOfDistinct(IntRange(0,9))", func(k int) c12Case {
			g := rapid.SliceOfDistinct(rapid.IntRange(0, 9), rapid.ID[int])
			return c12Case{name: fmt.Sprintf("SliceOfDistinct(IntRange(0,9)) len>=%d", k), want: fmt.Sprint(k), prop: func(t *rapid.T, out *string) {
				s := g.Draw(t, "s")
				*out = fmt.Sprint(len(s))
				if len(s) >= k {
					t.Fatalf("too long: %d", len(s))
				}
			}}
		}},
		{"MapOfN(IntRange(0,9),Int(),3,-1)", func(k int) c12Case {
			g := rapid.MapOfN(rapid.IntRange(0, 9), rapid.Int(), 3, -1)
			return c12Case{name: fmt.Sprintf("MapOfN(IntRange(0,9),Int(),3,-1) len>=%d", k), want: fmt.Sprint(k), prop: func(t *rapid.T, out *string) {
				m := g.Draw(t, "m")
				*out = fmt.Sprint(len(m))
				if len(m) >= k {
					t.Fatalf("too big: %d", len(m))
				}
			}}
		}},
		{"MapOf(Int32(),Bool())", func(k int) c12Case {
			g := rapid.MapOf(rapid.Int32(), rapid.Bool())
			return c12Case{name: fmt.Sprintf("MapOf(Int32(),Bool()) len>=%d", k), want: fmt.Sprint(k), prop: func(t *rapid.T, out *string) {
				m := g.Draw(t, "m")
				*out = fmt.Sprint(len(m))
				if len(m) >= k {
					t.Fatalf("too big: %d", len(m))
				}
			}}
		}},
	}
	for _, ck := range colls {
		for k := 0; k <= 32; k++ {
			if strings.Contains(ck.name, "IntRange(0,9)") && (k > 9 || strings.HasPrefix(ck.name, "MapOfN") && k < 3) {
				continue // ten possible keys; MapOfN(...,3,-1) never has fewer than 3 entries
			}
			ck, k := ck, k
			units = append(units, Unit{Name: fmt.Sprintf("C12/%s/k=%d", ck.name, k), Run: func(c *Ctx) {
				cs := ck.mk(k)
				tb := NewTB("C12")
				tb.Quiet = true
				pats := []func(i, n int) uint64{
					func(i, n int) uint64 { return 0 },
					func(i, n int) uint64 { return ^uint64(0) },
					func(i, n int) uint64 { return uint64(i) * 0x9e3779b97f4a7c15 },
					func(i, n int) uint64 { return (uint64(i)*0x2545f4914f6cdd1d ^ uint64(seed)) >> 3 },
					func(i, n int) uint64 { return uint64(i % 3) },
				}
				extra := []int{0, 1, 3}
				if !quick {
					extra = []int{0, 1, 2, 3, 7, 20}
				}
				for pi, pat := range pats {
					for _, ex := range extra {
						src := &collSource{want: k + ex, pattern: pat}
						var out string
						res := rapid.VerifRunSource(tb, src, false, func(t *rapid.T) { cs.prop(t, &out) })
						c.R.States++
						c.R.Transitions += int64(len(res.Data))
						if c12Failed(res.Kind) {
							c12Shrink(c, cs, res.Data, fmt.Sprintf("stream producing %d elements, pattern %d", k+ex, pi), ex)
						}
					}
				}
				ns := 20
				if !quick {
					ns = 300
				}
				if strings.Contains(ck.name, "IntRange(0,9)") {
					ns *= 5 // the interesting starts contain rejected elements
				}
				for s := 0; s < ns; s++ {
					var out string
					res := rapid.VerifRunSeed(tb, uint64(seed)*31+uint64(s)+1, false, func(t *rapid.T) { cs.prop(t, &out) })
					if c12Failed(res.Kind) {
						c12Shrink(c, cs, res.Data, fmt.Sprintf("PRNG seed %d", uint64(seed)*31+uint64(s)+1), 9)
					}
				}
			}})
		}
	}
	return units
}

func init() {
	Register(&Check{
		ID:    "C12",
		Level: "model_checking",
		Rule: "for every full-range integer kind: all thresholds for the 8-bit kinds, 2^j-1, 2^j, 2^j+1 (both signs, both directions) and the type extremes for the wider ones; for slices, strings and maps every k in 0..32. " +
			"Starting points: every failing answer sequence within the E1 bounds (sign coin x bias alphabet x intbits alphabet), streams that produce k..k+3 (thorough k+20) elements under 5 element patterns, and PRNG seeds; each minimized by the real shrinker with no time limit. " +
			"Oracle: the minimized buffer replays to exactly the boundary. distinct = distinct (case, minimized value); every minimized failing start is non-trivial.",
		Assumptions: []string{"'given enough time' = shrink deadline one hour away; bounded ranges are not claimed (as the statement says)"},
		Units:       c12Units,
		Budget:      map[string]time.Duration{"quick": 55 * time.Second, "thorough": 25 * time.Minute},
	})
}

// c12Fail: the ways a threshold property fails in practice. The threshold properties of one kind
// take turns: Fatalf, a panic and a run-time error whose texts name the drawn value (so every
// smaller counterexample fails with another text, at the same place), a non-fatal Errorf, and
// non-fatal calls that rapid notices at different moments (a Cleanup function reports every failing
// value, the body reports the far ones as well): failing only through non-fatal calls is ONE site.
func c12Fail(t *rapid.T, style int, x string, idx int, far bool) {
	switch style {
	case 0:
		t.Fatalf("beyond threshold: %s", x)
	case 1:
		panic("beyond threshold: " + x)
	case 2:
		var empty []int
		_ = empty[idx|1<<40] // index out of range [N] with length 0, N names the value
	case 3:
		t.Errorf("beyond threshold: %s", x)
	case 4:
		t.Cleanup(func() { t.Errorf("beyond threshold (reported by a cleanup): %s", x) })
		if far {
			t.Errorf("far beyond threshold: %s", x)
		}
	default:
		// a Cleanup function reports the failure non-fatally and skips; for far values a newer Cleanup function
		// has skipped before, so the older one runs while another skip is already in flight
		t.Cleanup(func() { t.Errorf("beyond threshold (reported by a cleanup that then skips): %s", x); t.SkipNow() })
		if far {
			t.Cleanup(func() { t.Skip("a newer cleanup skips first") })
		}
	}
}

func c12Failed(k int) bool { return k == rapid.VerifFail || k == rapid.VerifPanic }
