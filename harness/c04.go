package harness

// C04 - draws are a pure function of the bitstream.
// E1 over every catalogue program that can reject/retry (plus a few that cannot),
// around the all-zero and the all-ones base stream. For every complete or failing
// execution: replay the recorded words as recorded, prune() and replay, both
// through the real buffer stream; same draws, same verdict.

import (
	"flag"
	"fmt"
	"hash/fnv"
	"os"
	"os/exec"
	"strings"
	"time"

	"pgregory.net/rapid"
)

func kindName(k int) string {
	switch k {
	case rapid.VerifOK:
		return "pass"
	case rapid.VerifInvalid:
		return "invalid"
	case rapid.VerifFail:
		return "fail"
	default:
		return "panic"
	}
}

func hashStr(s string) uint64 {
	h := fnv.New64a()
	h.Write([]byte(s))
	return h.Sum64()
}

func shortlexLE(a, b []uint64) bool {
	if len(a) != len(b) {
		return len(a) < len(b)
	}
	for i := range a {
		if a[i] != b[i] {
			return a[i] < b[i]
		}
	}
	return true
}

func groupsWellNested(gs []rapid.VerifGroup, n int) string {
	// closed groups must lie inside the data and be pairwise disjoint or nested
	// (groups left open by a panic that was recovered further up are legitimate)
	var stack []rapid.VerifGroup
	for i, g := range gs {
		if g.Begin < 0 || g.Begin > n || (g.End >= 0 && (g.End < g.Begin || g.End > n)) {
			return fmt.Sprintf("group %d [%d,%d) outside data of length %d", i, g.Begin, g.End, n)
		}
		if g.End < 0 {
			continue
		}
		for len(stack) > 0 && stack[len(stack)-1].End <= g.Begin {
			stack = stack[:len(stack)-1]
		}
		if len(stack) > 0 {
			top := stack[len(stack)-1]
			if g.Begin < top.Begin || g.End > top.End {
				return fmt.Sprintf("group %d [%d,%d) %q straddles group [%d,%d) %q", i, g.Begin, g.End, g.Label, top.Begin, top.End, top.Label)
			}
		}
		stack = append(stack, g)
	}
	return ""
}

// c04Prop wraps a catalogue program: draws, records, and fails on a deterministic
// function of the draws so that failing verdicts are explored too.
func c04Prop(body func(t *rapid.T, r *Rec), r *Rec) func(t *rapid.T) {
	return func(t *rapid.T) {
		body(t, r)
		if hashStr(strings.Join(r.Draws, "|"))%3 == 0 {
			t.Fatalf("predicate false for %s", trunc(strings.Join(r.Draws, "|"), 60))
		}
	}
}

type runOut struct {
	res   rapid.VerifResult
	draws string
}

func runWith(body func(t *rapid.T, r *Rec), f func(prop func(*rapid.T)) rapid.VerifResult) (out runOut, rec *Rec) {
	rec = &Rec{}
	out.res = f(c04Prop(body, rec))
	out.draws = strings.Join(rec.Draws, "|")
	return
}

func c04Units(tier string, seed int64) []Unit {
	var units []Unit
	quick := tier != "thorough"
	for _, p := range append(AllProgs(), FailingProgs()...) {
		if !(p.Has("rej") || p.Has("machine") || p.Name == "Deferred(tree)" || p.Name == "Float64Range(0.5,1.5)" || p.Name == "Permutation(3)" || p.Name == "Ptr(Int8(),true)" || p.Name == "Make[made]") {
			continue
		}
		for _, base := range []string{"zeros", "ones"} {
			p, base := p, base
			units = append(units, Unit{Name: "C04/" + p.Name + "/" + base, Run: func(c *Ctx) {
				body := p.New()
				e := &BitDFS{Base: BaseZero, Depth: 16, MaxDev: 3, Overrun: true}
				if base == "ones" {
					e.Base = BaseOnes
				}
				if quick {
					e.Alpha = LevelAlpha(AlphaAll(3, AlphaEdge), AlphaAll(2, AlphaCoin), AlphaAll(1, AlphaCoin))
					e.MaxExecs = 60000
				} else {
					e.Depth, e.MaxDev = 24, 4
					e.Alpha = LevelAlpha(AlphaAll(4, AlphaFull(16)), AlphaAll(3, AlphaEdge), AlphaAll(2, AlphaCoin), AlphaAll(1, AlphaCoin))
					e.MaxExecs = 3000000
				}
				c.R.Bounds = fmt.Sprintf("depth=%d deviations<=%d base=%s", e.Depth, e.MaxDev, base)
				tb := NewTB("C04")
				tb.Quiet = true
				e.Explore(c, func(src *Source, devs int) {
					o1, _ := runWith(body, func(prop func(*rapid.T)) rapid.VerifResult { return rapid.VerifRunSource(tb, src, false, prop) })
					k := o1.res.Kind
					c.Outcome(kindName(k)+" "+o1.draws, len(o1.res.Pruned) != len(o1.res.Data))
					replayInfo := func() map[string]any {
						return map[string]any{"engine": "bitdfs", "program": p.Name, "base": base, "answers": src.Trace, "words": o1.res.Data, "pruned": o1.res.Pruned}
					}
					if msg := groupsWellNested(o1.res.Groups, len(o1.res.Data)); msg != "" {
						c.Violate(Violation{Sig: "C04 groups-not-nested prog=" + p.Name, Detail: msg, Replay: replayInfo(), Devs: devs})
					}
					// (i) as recorded
					o2, _ := runWith(body, func(prop func(*rapid.T)) rapid.VerifResult { return rapid.VerifRunBuf(tb, o1.res.Data, false, prop) })
					c.R.Evals++
					if o2.res.Kind != k || o2.draws != o1.draws || o2.res.Msg != o1.res.Msg {
						c.Violate(Violation{Sig: "C04 replay-as-recorded-diverges prog=" + p.Name,
							Detail: fmt.Sprintf("run: %s %q draws %s\nreplay of the recorded words: %s %q draws %s", kindName(k), o1.res.Msg, o1.draws, kindName(o2.res.Kind), o2.res.Msg, o2.draws),
							Replay: replayInfo(), Devs: devs})
					}
					if k == rapid.VerifInvalid {
						return
					}
					// (ii) pruned
					if o1.res.PruneErr != "" {
						c.Violate(Violation{Sig: "C04 prune-assertion prog=" + p.Name, Detail: "prune() panicked: " + o1.res.PruneErr, Replay: replayInfo(), Devs: devs})
						return
					}
					if !shortlexLE(o1.res.Pruned, o1.res.Data) {
						c.Violate(Violation{Sig: "C04 pruned-larger prog=" + p.Name, Detail: "pruned data is shortlex-larger than the recording", Replay: replayInfo(), Devs: devs})
					}
					if len(o1.res.Pruned) != len(o1.res.Data) {
						c.Count("pruned_recordings", 1)
					}
					// (iii) the same words with all bits above the requested width set: minimization candidates,
					// fail files and fuzz inputs are raw 64-bit words, the stream must mask them - and what it
					// records must again survive prune() and replay
					if len(src.Trace) == len(o1.res.Data) || src.Ended {
						raw := make([]uint64, len(o1.res.Data))
						for i := range raw {
							raw[i] = o1.res.Data[i] | ^mask(src.Trace[i].N)
						}
						o5, _ := runWith(body, func(prop func(*rapid.T)) rapid.VerifResult { return rapid.VerifRunBuf(tb, raw, false, prop) })
						c.R.Evals++
						if o5.res.Kind != k || o5.draws != o1.draws {
							c.Violate(Violation{Sig: "C04 high-bits-change-the-run prog=" + p.Name,
								Detail: fmt.Sprintf("run: %s draws %s\nsame words with the unused high bits set: %s %q draws %s", kindName(k), o1.draws, kindName(o5.res.Kind), o5.res.Msg, o5.draws),
								Replay: map[string]any{"engine": "buffer", "program": p.Name, "words": raw}, Devs: devs})
						} else if o5.res.PruneErr == "" {
							o6, _ := runWith(body, func(prop func(*rapid.T)) rapid.VerifResult { return rapid.VerifRunBuf(tb, o5.res.Pruned, false, prop) })
							c.R.Evals++
							if o6.res.Kind != k || o6.draws != o1.draws {
								c.Violate(Violation{Sig: "C04 prune-replay-of-buffer-run-diverges prog=" + p.Name,
									Detail: fmt.Sprintf("buffer run on raw words: %s draws %s (recorded %s, pruned %s)\nreplay of its pruned recording: %s %q draws %s", kindName(k), o5.draws, fmtWords(o5.res.Data), fmtWords(o5.res.Pruned), kindName(o6.res.Kind), o6.res.Msg, o6.draws),
									Replay: map[string]any{"engine": "buffer", "program": p.Name, "words": raw, "pruned": o5.res.Pruned}, Devs: devs})
							}
						}
					}
					o3, _ := runWith(body, func(prop func(*rapid.T)) rapid.VerifResult { return rapid.VerifRunBuf(tb, o1.res.Pruned, false, prop) })
					c.R.Evals++
					if o3.res.Kind != k || o3.draws != o1.draws || o3.res.Msg != o1.res.Msg {
						cause := "other"
						if o3.res.Kind == rapid.VerifInvalid && strings.Contains(o3.res.Msg, "overrun") {
							cause = "pruned-replay-overruns"
						}
						c.Violate(Violation{Sig: fmt.Sprintf("C04 prune-replay-diverges prog=%s cause=%s", p.Name, cause),
							Detail: fmt.Sprintf("run: %s %q draws %s (words %d, pruned %d)\nreplay of the pruned words: %s %q draws %s", kindName(k), o1.res.Msg, o1.draws, len(o1.res.Data), len(o1.res.Pruned), kindName(o3.res.Kind), o3.res.Msg, o3.draws),
							Replay: replayInfo(), Devs: devs})
					}
				})
			}})
		}
	}
	// seed determinism and history independence
	units = append(units, Unit{Name: "C04/seed-determinism", Run: func(c *Ctx) {
		progs := append(AllProgs(), FailingProgs()...)
		nseeds := 40
		if !quick {
			nseeds = 400
		}
		tb := NewTB("C04")
		tb.Quiet = true
		c.R.Bounds = fmt.Sprintf("seeds=%d programs=%d", nseeds, len(progs))
		for pi, p := range progs {
			if c.Expired() {
				c.Cap("time budget")
				return
			}
			body := p.New()
			for s := 0; s < nseeds; s++ {
				sd := uint64(seed)*1000003 + uint64(s) + 1
				a, _ := runWith(body, func(prop func(*rapid.T)) rapid.VerifResult { return rapid.VerifRunSeed(tb, sd, false, prop) })
				// unrelated work in between: another program on another seed, cache reset every other time
				other := progs[(pi*7+s+1)%len(progs)].New()
				runWith(other, func(prop func(*rapid.T)) rapid.VerifResult { return rapid.VerifRunSeed(tb, sd+17, false, prop) })
				if s%2 == 0 {
					rapid.VerifResetCaches()
				}
				b, _ := runWith(body, func(prop func(*rapid.T)) rapid.VerifResult { return rapid.VerifRunSeed(tb, sd, false, prop) })
				// and a fresh generator value of the same expression
				b2, _ := runWith(p.New(), func(prop func(*rapid.T)) rapid.VerifResult { return rapid.VerifRunSeed(tb, sd, false, prop) })
				c.R.Evals += 3
				c.R.States++
				c.R.Transitions += 3
				c.Outcome(p.Name+" "+a.draws, a.res.Kind != rapid.VerifInvalid)
				for _, x := range []runOut{b, b2} {
					if x.draws != a.draws || x.res.Kind != a.res.Kind || fmt.Sprint(x.res.Data) != fmt.Sprint(a.res.Data) {
						c.Violate(Violation{Sig: "C04 seed-nondeterminism prog=" + p.Name,
							Detail: fmt.Sprintf("seed %d: first run %s draws %s; later run %s draws %s", sd, kindName(a.res.Kind), a.draws, kindName(x.res.Kind), x.draws),
							Replay: map[string]any{"engine": "seed", "program": p.Name, "seed": sd}})
					}
				}
				// replay of a PRNG recording through the buffer stream
				if a.res.Kind != rapid.VerifInvalid {
					r2, _ := runWith(body, func(prop func(*rapid.T)) rapid.VerifResult { return rapid.VerifRunBuf(tb, a.res.Data, false, prop) })
					r3, _ := runWith(body, func(prop func(*rapid.T)) rapid.VerifResult { return rapid.VerifRunBuf(tb, a.res.Pruned, false, prop) })
					c.R.Evals += 2
					if r2.draws != a.draws || r2.res.Kind != a.res.Kind {
						c.Violate(Violation{Sig: "C04 replay-as-recorded-diverges prog=" + p.Name,
							Detail: fmt.Sprintf("seed %d: run draws %s; replay %s draws %s", sd, a.draws, kindName(r2.res.Kind), r2.draws),
							Replay: map[string]any{"engine": "seed", "program": p.Name, "seed": sd, "words": a.res.Data}})
					}
					if r3.draws != a.draws || r3.res.Kind != a.res.Kind {
						cause := "other"
						if r3.res.Kind == rapid.VerifInvalid && strings.Contains(r3.res.Msg, "overrun") {
							cause = "pruned-replay-overruns"
						}
						c.Violate(Violation{Sig: fmt.Sprintf("C04 prune-replay-diverges prog=%s cause=%s", p.Name, cause),
							Detail: fmt.Sprintf("seed %d: run draws %s; pruned replay %s %q draws %s", sd, a.draws, kindName(r3.res.Kind), r3.res.Msg, r3.draws),
							Replay: map[string]any{"engine": "seed", "program": p.Name, "seed": sd, "words": a.res.Data, "pruned": a.res.Pruned}, Devs: 100})
					}
				}
			}
		}
	}})
	// retried sub-draws inside scalar generators (a biased width whose first attempt exceeds the maximum): ranges whose
	// exponent / magnitude span is not of the form 2^k-1, four values per test case, run = replay = pruned replay
	units = append(units, Unit{Name: "C04/retried-sub-draws-of-scalar-ranges", Run: func(c *Ctx) {
		tb := NewTB("C04")
		tb.Quiet = true
		var progs []Prog
		for _, r := range [][2]float64{{1, 1000}, {0, 5}, {-20, 0.5}, {0.001, 3}, {-1e6, -3}, {5, 6e9}, {-7, 7}, {1e-300, 1e-5}} {
			lo, hi := r[0], r[1]
			progs = append(progs, Prog{Name: fmt.Sprintf("Float64Range(%g,%g)x4", lo, hi), New: func() func(t *rapid.T, r *Rec) {
				g := rapid.Float64Range(lo, hi)
				return func(t *rapid.T, r *Rec) {
					for i := 0; i < 4; i++ {
						r.Draws = append(r.Draws, Render(g.Draw(t, "f")))
					}
				}
			}}, Prog{Name: fmt.Sprintf("Float32Range(%g,%g)x4", lo, hi), New: func() func(t *rapid.T, r *Rec) {
				g := rapid.Float32Range(float32(lo), float32(hi))
				return func(t *rapid.T, r *Rec) {
					for i := 0; i < 4; i++ {
						r.Draws = append(r.Draws, Render(g.Draw(t, "f")))
					}
				}
			}})
		}
		for _, r := range [][2]int64{{0, 5}, {-20, 1000}, {3, 1 << 40}, {-(1 << 62) - 5, 1<<62 + 5}, {0, 200}} {
			lo, hi := r[0], r[1]
			progs = append(progs, Prog{Name: fmt.Sprintf("Int64Range(%d,%d)x4", lo, hi), New: func() func(t *rapid.T, r *Rec) {
				g := rapid.Int64Range(lo, hi)
				return func(t *rapid.T, r *Rec) {
					for i := 0; i < 4; i++ {
						r.Draws = append(r.Draws, Render(g.Draw(t, "i")))
					}
				}
			}})
		}
		nseeds := 2500
		if !quick {
			nseeds = 40000
		}
		c.R.Bounds = fmt.Sprintf("seeds=%d programs=%d", nseeds, len(progs))
		for _, p := range progs {
			body := p.New()
			pruned := 0
			for s := 0; s < nseeds; s++ {
				sd := uint64(seed)*7368787 + uint64(s) + 1
				a, _ := runWith(body, func(prop func(*rapid.T)) rapid.VerifResult { return rapid.VerifRunSeed(tb, sd, false, prop) })
				c.R.Evals++
				if a.res.Kind != rapid.VerifOK || len(a.res.Pruned) == len(a.res.Data) {
					continue // nothing was retried in this run
				}
				pruned++
				c.R.States++
				r3, _ := runWith(body, func(prop func(*rapid.T)) rapid.VerifResult { return rapid.VerifRunBuf(tb, a.res.Pruned, false, prop) })
				c.R.Evals++
				if r3.draws != a.draws || r3.res.Kind != a.res.Kind {
					c.Violate(Violation{Sig: "C04 prune-replay-diverges prog=" + p.Name + " cause=retried-sub-draw",
						Detail: fmt.Sprintf("seed %d: run draws %s; replay of the pruned recording (%d of %d words) %s draws %s", sd, a.draws, len(a.res.Pruned), len(a.res.Data), kindName(r3.res.Kind), r3.draws),
						Replay: map[string]any{"engine": "seed", "program": p.Name, "seed": sd, "words": a.res.Data, "pruned": a.res.Pruned}})
					break
				}
			}
			c.Outcome(fmt.Sprintf("%s: runs with a retried sub-draw: %d", p.Name, pruned), pruned > 0)
		}
	}})
	units = append(units, Unit{Name: "C04/short-mode-history", Run: func(c *Ctx) {
		// -short changes how much work is done, never what the same bits mean - and a check must
		// not leave anything behind that changes later checks in the process
		defer flag.Set("test.short", "false")
		tb := NewTB("C04")
		tb.Quiet = true
		for _, short := range []string{"false", "true"} {
			flag.Set("test.short", short)
			for _, p := range MachineProgs() {
				body := p.New()
				for s := 0; s < 60; s++ {
					sd := uint64(seed)*31 + uint64(s) + 5
					first, _ := runWith(body, func(prop func(*rapid.T)) rapid.VerifResult { return rapid.VerifRunSeed(tb, sd, false, prop) })
					for rep := 0; rep < 6; rep++ {
						again, _ := runWith(body, func(prop func(*rapid.T)) rapid.VerifResult { return rapid.VerifRunSeed(tb, sd, false, prop) })
						c.R.Evals++
						if again.draws != first.draws || again.res.Kind != first.res.Kind {
							c.Violate(Violation{Sig: "C04 history-dependence short=" + short + " prog=" + p.Name,
								Detail: fmt.Sprintf("seed %d, -short=%s: first run draws %s; run %d in the same process draws %s", sd, short, first.draws, rep+2, again.draws),
								Replay: map[string]any{"engine": "seed", "program": p.Name, "seed": sd, "short": short}})
						}
						if first.res.Kind != rapid.VerifInvalid {
							rb, _ := runWith(body, func(prop func(*rapid.T)) rapid.VerifResult { return rapid.VerifRunBuf(tb, first.res.Data, false, prop) })
							c.R.Evals++
							if rb.draws != first.draws {
								c.Violate(Violation{Sig: "C04 history-dependence short=" + short + " prog=" + p.Name,
									Detail: fmt.Sprintf("seed %d, -short=%s: run draws %s; replay of its recording later in the process draws %s", sd, short, first.draws, rb.draws),
									Replay: map[string]any{"engine": "seed", "program": p.Name, "seed": sd, "short": short}})
							}
						}
					}
					c.R.States++
					c.R.Transitions += 12
					c.Outcome(short+p.Name+first.draws, true)
				}
			}
		}
	}})
	// what a test case draws does not depend on the TEXT with which an attempt is rejected: the same generator
	// function skipping with different messages (among them words the library uses itself) draws the same
	units = append(units, siblingsUnit("C04"))
	units = append(units, longLivedUnit("C04", quick))
	units = append(units, Unit{Name: "C04/skip-message-independence", Run: func(c *Ctx) {
		tb := NewTB("C04")
		tb.Quiet = true
		mk := func(msg string) func(t *rapid.T, r *Rec) {
			g := rapid.Custom(func(t *rapid.T) int {
				v := rapid.IntRange(0, 7).Draw(t, "v")
				if v%2 == 1 {
					t.Skip(msg)
				}
				return v
			})
			return func(t *rapid.T, r *Rec) {
				r.Draws = append(r.Draws, Render(g.Draw(t, "a")), Render(g.Draw(t, "b")))
			}
		}
		msgs := []string{"odd", "", "overrun", "invalid data", "too many rejections in repeat", "no possible regexp match", "can't find a valid (non-skipped) action"}
		n := 300
		if !quick {
			n = 5000
		}
		for sd := uint64(1); sd <= uint64(n); sd++ {
			var ref runOut
			for i, m := range msgs {
				o, _ := runWith(mk(m), func(prop func(*rapid.T)) rapid.VerifResult {
					return rapid.VerifRunSeed(tb, uint64(seed)*3+sd, false, prop)
				})
				c.R.Evals++
				c.R.Transitions++
				if i == 0 {
					ref = o
					c.R.States++
					c.Outcome(kindName(o.res.Kind)+o.draws, len(o.res.Pruned) != len(o.res.Data))
					continue
				}
				if o.draws != ref.draws || o.res.Kind != ref.res.Kind || fmt.Sprint(o.res.Data) != fmt.Sprint(ref.res.Data) {
					c.Violate(Violation{Sig: fmt.Sprintf("C04 skip-message-changes-the-run message=%q", m),
						Detail: fmt.Sprintf("seed %d: a Custom function that rejects odd values with t.Skip(%q): %s draws %s (%d words); with t.Skip(%q): %s draws %s (%d words)", uint64(seed)*3+sd, msgs[0], kindName(ref.res.Kind), ref.draws, len(ref.res.Data), m, kindName(o.res.Kind), o.draws, len(o.res.Data)),
						Replay: map[string]any{"engine": "seed", "seed": uint64(seed)*3 + sd, "message": m}})
					break
				}
			}
		}
	}})
	// ... and not on the platform: the same expressions (value types independent of the word size) draw the same
	// values from the same seeds and buffers in a 64-bit and in a 32-bit build of the library
	units = append(units, Unit{Name: "C04/cross-platform amd64 vs 386", Run: func(c *Ctx) {
		b64, b32 := os.Getenv("VERIF_PLAT_BIN"), os.Getenv("VERIF_PLAT386_BIN")
		if b64 == "" || b32 == "" {
			c.Cap("the 32-bit digest program could not be built here: cross-platform comparison not run")
			return
		}
		o64, err1 := exec.Command(b64).Output()
		o32, err2 := exec.Command(b32).Output()
		if err1 != nil || err2 != nil {
			c.Cap(fmt.Sprintf("digest programs did not run (%v, %v): cross-platform comparison not run", err1, err2))
			return
		}
		l64, l32 := strings.Split(strings.TrimSpace(string(o64)), "\n"), strings.Split(strings.TrimSpace(string(o32)), "\n")
		if len(l64) != len(l32) || len(l64) < 100 {
			c.R.HarnessErr = fmt.Sprintf("digest outputs have %d and %d lines", len(l64), len(l32))
			return
		}
		bad := map[string]bool{}
		for i := range l64 {
			c.R.Evals += 2
			c.R.States++
			c.R.Transitions += 2
			f := strings.SplitN(l64[i], "\t", 2)
			c.Outcome(l64[i], true)
			if l64[i] != l32[i] && !bad[f[0]] {
				bad[f[0]] = true
				c.Violate(Violation{Sig: "C04 platform-dependent-draws prog=" + f[0], Detail: "64-bit build: " + l64[i] + "\n32-bit build: " + l32[i] + "\n(columns: expression, seed or buffer, verdict, words consumed, value)",
					Replay: map[string]any{"engine": "platdigest", "line": i}})
			}
		}
	}})
	units = append(units, c04HistoryUnit())
	units = append(units, Unit{Name: "C04/example-determinism", Run: func(c *Ctx) {
		n := 200
		if !quick {
			n = 4000
		}
		g1 := rapid.SliceOfDistinct(rapid.IntRange(0, 50), rapid.ID[int])
		g2 := rapid.StringMatching(`[a-c]{1,4}x?`)
		g3 := rapid.MapOf(rapid.Int8(), rapid.Float64())
		for s := 0; s < n; s++ {
			a1, a2, a3 := Render(g1.Example(s)), Render(g2.Example(s)), fmt.Sprintf("%v", g3.Example(s))
			rapid.Int().Example(s + 5)
			if s%3 == 0 {
				rapid.VerifResetCaches()
			}
			b1, b2, b3 := Render(rapid.SliceOfDistinct(rapid.IntRange(0, 50), rapid.ID[int]).Example(s)), Render(g2.Example(s)), fmt.Sprintf("%v", g3.Example(s))
			c.R.Evals += 6
			c.R.States++
			c.R.Transitions += 6
			c.Outcome(a1+a2+a3, true)
			if a1 != b1 || a2 != b2 || a3 != b3 {
				c.Violate(Violation{Sig: "C04 example-nondeterminism", Detail: fmt.Sprintf("Example(%d): %s %s %s vs %s %s %s", s, a1, a2, a3, b1, b2, b3),
					Replay: map[string]any{"engine": "example", "seed": s}})
			}
		}
	}})
	return units
}

func init() {
	Register(&Check{
		ID:    "C04",
		Level: "model_checking",
		Rule: "E1 bitdfs: every sequence of drawBits answers over the per-width alphabet within the depth/deviation bounds, around the all-zero and the all-ones stream, " +
			"for every rejection-capable catalogue program; each execution is replayed as recorded and after prune() through the real buffer stream. " +
			"distinct = distinct (verdict, draws) outcomes per unit; non-trivial = outcomes whose recording contained discarded (rejected) groups, i.e. pruning removed words.",
		Assumptions: []string{"alphabet per requested width as in DESIGN.md 3.2; a defect needing a specific non-boundary 64-bit word is out of reach",
			"properties are deterministic functions of their draws (the harness programs are)"},
		Units:  c04Units,
		Budget: map[string]time.Duration{"quick": 50 * time.Second, "thorough": 20 * time.Minute},
	})
}
