package harness

// C18 - generators can reach every allowed value, hit the edges, and use fresh seeds.
// (i) reachability as EF queries answered by E1: the set of values produced over all answer sequences
// within the bounds must contain every allowed value (8-bit ranges: the whole range; wider kinds: every
// lo+a with a from the intbits alphabet, ranges of every span bit length at the type extremes; floats:
// bounds, zero, neighbours). (ii) edges within a few thousand draws, decided literally on Example(seed),
// seed < 4096. (iii) the test cases of one run differ. (iv) unseeded Check calls use different seeds.

import (
	"fmt"
	"math"
	"math/bits"
	"os"
	"os/exec"
	"sort"
	"strings"
	"time"

	"pgregory.net/rapid"
)

// reachSet runs E1 on a single-draw program and returns the set of rendered values produced.
func reachSet(c *Ctx, draw func(t *rapid.T) string, depth, maxDev int, alpha func(n int, level int) []uint64) map[string]bool {
	out := map[string]bool{}
	defer func() {
		if !c.R.Complete {
			// a capped exploration proves nothing about unreachability
			for k := range out {
				delete(out, k)
			}
			out["<incomplete>"] = true
		}
	}()
	tb := NewTB("C18")
	tb.Quiet = true
	for _, base := range []func(int) uint64{BaseZero, BaseOnes} {
		e := &BitDFS{Base: base, Depth: depth, MaxDev: maxDev, Alpha: alpha, PRNGFaithful: true}
		e.Explore(c, func(src *Source, devs int) {
			var v string
			res := rapid.VerifRunSource(tb, src, false, func(t *rapid.T) { v = draw(t) })
			if res.Kind == rapid.VerifOK {
				out[v] = true
			}
		})
	}
	return out
}

func c18Units(tier string, seed int64) []Unit {
	quick := tier != "thorough"
	var units []Unit

	// (i-a) all 8-bit ranges
	alpha8 := LevelAlpha(AlphaAll(8, AlphaGrid(16)), AlphaAll(8, AlphaGrid(16)), AlphaAll(1, AlphaCoin))
	type r8 struct{ lo, hi int }
	var ranges []r8
	for lo := 0; lo < 256; lo++ {
		for hi := lo; hi < 256; hi++ {
			if quick {
				size := hi - lo + 1
				if !(lo == 0 || lo == 1 || hi == 255 || lo == 128-size/2 || lo == 127 || lo == 128 || size <= 3) {
					continue
				}
			}
			ranges = append(ranges, r8{lo, hi})
		}
	}
	per := 40
	if !quick {
		per = 120
	}
	for _, kind := range []string{"Uint8", "Byte", "Int8"} {
		for i := 0; i < len(ranges); i += per {
			kind, lo, hi := kind, i, min(i+per, len(ranges))
			units = append(units, Unit{Name: fmt.Sprintf("C18/reach-8bit/%s/ranges-%d-%d", kind, lo, hi-1), Run: func(c *Ctx) {
				for _, r := range ranges[lo:hi] {
					if c.Expired() {
						c.Cap("time budget")
						return
					}
					var draw func(t *rapid.T) string
					off := 0
					switch kind {
					case "Uint8":
						g := rapid.Uint8Range(uint8(r.lo), uint8(r.hi))
						draw = func(t *rapid.T) string { return fmt.Sprint(g.Draw(t, "v")) }
					case "Byte":
						g := rapid.ByteRange(byte(r.lo), byte(r.hi))
						draw = func(t *rapid.T) string { return fmt.Sprint(g.Draw(t, "v")) }
					case "Int8":
						off = -128
						g := rapid.Int8Range(int8(r.lo-128), int8(r.hi-128))
						draw = func(t *rapid.T) string { return fmt.Sprint(g.Draw(t, "v")) }
					}
					dev := 2
					if kind == "Int8" {
						dev = 3
					}
					set := reachSet(c, draw, 4, dev, alpha8)
					if set["<incomplete>"] {
						return
					}
					var missing []int
					for v := r.lo; v <= r.hi; v++ {
						if !set[fmt.Sprint(v+off)] {
							missing = append(missing, v+off)
						}
					}
					for k := range set {
						var v int
						fmt.Sscan(k, &v)
						if v < r.lo+off || v > r.hi+off {
							c.Violate(Violation{Sig: "C18 out-of-range-value kind=" + kind, Detail: fmt.Sprintf("%sRange(%d,%d) produced %d", kind, r.lo+off, r.hi+off, v), Replay: map[string]any{"kind": kind, "lo": r.lo + off, "hi": r.hi + off}})
						}
					}
					c.Outcome(fmt.Sprintf("%s[%d,%d] reached %d", kind, r.lo+off, r.hi+off, len(set)), r.hi > r.lo)
					if len(missing) > 0 {
						c.Violate(Violation{Sig: fmt.Sprintf("C18 unreachable-values kind=%s spanbits=%d", kind, bits.Len(uint(r.hi-r.lo))),
							Detail: fmt.Sprintf("%sRange(%d,%d): %d of %d allowed values are produced by no answer sequence within the bounds, e.g. %v", kind, r.lo+off, r.hi+off, len(missing), r.hi-r.lo+1, missing[:min(len(missing), 8)]),
							Replay: map[string]any{"kind": kind, "lo": r.lo + off, "hi": r.hi + off, "missing": missing[:min(len(missing), 20)]}})
					}
				}
			}})
		}
	}

	// (i-b) wider kinds: every span bit length at both type extremes and around zero
	wide := AlphaUnion(AlphaFull(32), AlphaLog(16))
	alphaW := LevelAlpha(AlphaAll(3, wide), AlphaAll(3, wide), AlphaAll(1, AlphaCoin))
	alphaWs := LevelAlpha(AlphaAll(1, AlphaCoin), AlphaAll(3, AlphaLog(16)), AlphaAll(3, AlphaFull(32)))
	for b := 1; b <= 64; b++ {
		b := b
		units = append(units, Unit{Name: fmt.Sprintf("C18/reach-wide/spanbits=%d", b), Run: func(c *Ctx) {
			var span uint64 = math.MaxUint64
			if b < 64 {
				span = uint64(1)<<uint(b) - 1
			}
			spans := []uint64{span}
			if b > 1 {
				spans = append(spans, span-1, uint64(1)<<uint(b-1)) // not of the form 2^b-1: exercises the rejection path
			}
			for _, sp := range spans {
				// unsigned: [0, sp], [max-sp, max]
				type ur struct{ lo, hi uint64 }
				urs := []ur{{0, sp}, {math.MaxUint64 - sp, math.MaxUint64}}
				if sp < math.MaxUint64-1000 {
					urs = append(urs, ur{1000, 1000 + sp})
				}
				for _, r := range urs {
					g := rapid.Uint64Range(r.lo, r.hi)
					set := reachSet(c, func(t *rapid.T) string { return fmt.Sprint(g.Draw(t, "v")) }, 4, 2, alphaW)
					if set["<incomplete>"] {
						return
					}
					var missing []uint64
					n := bits.Len64(sp)
					for _, a := range AlphaFull(32)(n) {
						if a <= sp && !set[fmt.Sprint(r.lo+a)] {
							missing = append(missing, r.lo+a)
						}
					}
					c.Outcome(fmt.Sprintf("Uint64[%d,%d] reached %d", r.lo, r.hi, len(set)), true)
					if len(missing) > 0 {
						top := 0
						for _, m := range missing {
							if bits.Len64(m-r.lo) == n {
								top++
							}
						}
						c.Violate(Violation{Sig: fmt.Sprintf("C18 unreachable-values kind=Uint64 spanbits=%d", n),
							Detail: fmt.Sprintf("Uint64Range(%d,%d): %d target values (lo + alphabet word) are produced by no answer sequence within the bounds (%d of them in the top bit-length band), e.g. %v", r.lo, r.hi, len(missing), top, missing[:min(len(missing), 6)]),
							Replay: map[string]any{"kind": "Uint64", "lo": r.lo, "hi": r.hi, "missing": missing[:min(len(missing), 20)]}})
					}
				}
				// signed: [min, min+sp], [max-sp, max], [-sp/2, sp-sp/2]
				if sp <= math.MaxInt64 {
					type sr struct{ lo, hi int64 }
					srs := []sr{{math.MinInt64, math.MinInt64 + int64(sp)}, {math.MaxInt64 - int64(sp), math.MaxInt64}, {-int64(sp / 2), int64(sp - sp/2)}}
					for _, r := range srs {
						g := rapid.Int64Range(r.lo, r.hi)
						set := reachSet(c, func(t *rapid.T) string { return fmt.Sprint(g.Draw(t, "v")) }, 5, 3, alphaWs)
						if set["<incomplete>"] {
							return
						}
						var missing []int64
						targets := []int64{r.lo, r.hi}
						if r.lo <= 0 && r.hi >= 0 {
							targets = append(targets, 0)
						}
						for j := 0; j < 63; j++ {
							p := int64(1) << uint(j)
							if r.lo >= 0 && uint64(p) <= uint64(r.hi)-uint64(r.lo) {
								targets = append(targets, r.lo+p)
							}
							if r.hi <= 0 && uint64(p) <= uint64(r.hi)-uint64(r.lo) {
								targets = append(targets, r.hi-p)
							}
							if r.lo < 0 && r.hi > 0 {
								if p <= r.hi {
									targets = append(targets, p)
								}
								if -p >= r.lo {
									targets = append(targets, -p)
								}
							}
						}
						for _, tg := range targets {
							if !set[fmt.Sprint(tg)] {
								missing = append(missing, tg)
							}
						}
						c.Outcome(fmt.Sprintf("Int64[%d,%d] reached %d", r.lo, r.hi, len(set)), true)
						if len(missing) > 0 {
							c.Violate(Violation{Sig: fmt.Sprintf("C18 unreachable-values kind=Int64 spanbits=%d", bits.Len64(sp)),
								Detail: fmt.Sprintf("Int64Range(%d,%d): targets produced by no answer sequence within the bounds: %v", r.lo, r.hi, missing[:min(len(missing), 8)]),
								Replay: map[string]any{"kind": "Int64", "lo": r.lo, "hi": r.hi, "missing": missing[:min(len(missing), 20)]}})
						}
					}
				}
			}
		}})
	}

	// (i-c) floats: bounds, zero, neighbours of the bounds
	type fr struct{ lo, hi float64 }
	inf := math.Inf(1)
	frs := []fr{{0, 1}, {-1, 1}, {0.5, 1.5}, {-math.MaxFloat64, math.MaxFloat64}, {-inf, inf}, {1, 2}, {-2, -1}, {0, math.SmallestNonzeroFloat64 * 8}, {1e-310, 1e-300}, {3, 3}, {-0.1, 0.3}, {1e300, inf}, {1023.5, 1024.5}}
	units = append(units, Unit{Name: "C18/reach-float", Run: func(c *Ctx) {
		alphaF := LevelAlpha(AlphaAll(3, AlphaEdge), AlphaAll(3, AlphaEdge), AlphaAll(2, AlphaCoin), AlphaAll(1, AlphaCoin))
		for _, r := range frs {
			for _, w := range []int{64, 32} {
				var draw func(t *rapid.T) string
				if w == 64 {
					g := rapid.Float64Range(r.lo, r.hi)
					draw = func(t *rapid.T) string { return fmt.Sprintf("%016x", math.Float64bits(g.Draw(t, "f"))) }
				} else {
					lo32, hi32 := float32(r.lo), float32(r.hi)
					if float64(lo32) < r.lo || float64(hi32) > r.hi || lo32 > hi32 || math.IsInf(float64(lo32), 0) != math.IsInf(r.lo, 0) || math.IsInf(float64(hi32), 0) != math.IsInf(r.hi, 0) {
						continue
					}
					g := rapid.Float32Range(lo32, hi32)
					draw = func(t *rapid.T) string { return fmt.Sprintf("%016x", math.Float64bits(float64(g.Draw(t, "f")))) }
				}
				md := 3
				if !quick {
					md = 4
				}
				set := reachSet(c, draw, 12, md, alphaF)
				if set["<incomplete>"] {
					return
				}
				targets := map[string]float64{"min": r.lo, "max": r.hi}
				if r.lo <= 0 && r.hi >= 0 {
					targets["zero"] = 0
				}
				var missing []string
				for name, tg := range targets {
					if w == 32 {
						tg = float64(float32(tg))
					}
					ok := set[fmt.Sprintf("%016x", math.Float64bits(tg))]
					if tg == 0 {
						ok = ok || set[fmt.Sprintf("%016x", math.Float64bits(math.Copysign(0, -1)))]
					}
					if !ok {
						missing = append(missing, fmt.Sprintf("%s=%g", name, tg))
					}
				}
				sort.Strings(missing)
				c.Outcome(fmt.Sprintf("Float%d[%g,%g] reached %d", w, r.lo, r.hi, len(set)), true)
				if len(missing) > 0 {
					c.Violate(Violation{Sig: fmt.Sprintf("C18 unreachable-float-edge width=%d %s", w, strings.Join(missing, ",")[:min(40, len(strings.Join(missing, ",")))]),
						Detail: fmt.Sprintf("Float%dRange(%g,%g): no answer sequence within the bounds produces %v (%d distinct values reached)", w, r.lo, r.hi, missing, len(set)),
						Replay: map[string]any{"width": w, "lo": r.lo, "hi": r.hi}})
				}
			}
		}
	}})

	// (i-d) floats: interior values - every integer k and k+0.5 inside ranges whose bounds have fractions
	type fr2 struct{ lo, hi float64 }
	interior := []fr2{{10.75, 20}, {8.5, 15.25}, {-20, -2.5}, {2.25, 3.5}, {0.3, 7.9}, {-6.75, 9.125}, {128, 255.5}, {1048576, 2097151.5}, {1, 1.9990234375}}
	if !quick {
		interior = append(interior, fr2{-100, -2.5}, fr2{33.3, 70.1})
	}
	for _, r := range interior {
		for _, w := range []int{64, 32} {
			r, w := r, w
			units = append(units, Unit{Name: fmt.Sprintf("C18/reach-float-interior/Float%dRange(%g,%g)", w, r.lo, r.hi), Run: func(c *Ctx) {
				var draw func(t *rapid.T) string
				if w == 64 {
					g := rapid.Float64Range(r.lo, r.hi)
					draw = func(t *rapid.T) string { return fmt.Sprint(g.Draw(t, "f")) }
				} else {
					g := rapid.Float32Range(float32(r.lo), float32(r.hi))
					draw = func(t *rapid.T) string { return fmt.Sprint(g.Draw(t, "f")) }
				}
				// a witness needs up to five non-base answers: exponent (bias + bits), integer part of the
				// significand, the "keep low bits" draw and the fraction
				small := 4
				if r.hi > 32 || r.lo < -32 {
					small = 6 // integer part of the significand has up to 6 bits: all of them are needed as answers
				}
				alpha := LevelAlpha(AlphaAll(small, AlphaQuarter))
				set := reachSet(c, draw, 9, 5, alpha)
				if set["<incomplete>"] {
					return
				}
				var missing []string
				for k := math.Ceil(r.lo); k <= r.hi && r.hi-r.lo <= 40; k++ { // wide ranges: only the neighbours of the bound below
					for _, v := range []float64{k, k + 0.5} {
						if v < r.lo || v > r.hi {
							continue
						}
						if v == 0 {
							if !set["0"] && !set["-0"] {
								missing = append(missing, "0")
							}
							continue
						}
						if !set[fmt.Sprint(v)] {
							missing = append(missing, fmt.Sprint(v))
						}
					}
				}
				// the two upper neighbours of the lower bound (fraction = minimum + 1, + 2): the last fraction bit must be
				// reachable. (The lower neighbour of the upper bound needs the answer "sfMax - 1", which is an alphabet word
				// only when sfMax is all ones; asking for it raised a false alarm and was dropped.)
				nb := []float64{math.Nextafter(r.lo, math.Inf(1)), math.Nextafter(math.Nextafter(r.lo, math.Inf(1)), math.Inf(1))}
				if w == 32 {
					nb = []float64{float64(math.Nextafter32(float32(r.lo), 1e38)), float64(math.Nextafter32(math.Nextafter32(float32(r.lo), 1e38), 1e38))}
				}
				for _, v := range nb {
					key := fmt.Sprint(v)
					if w == 32 {
						key = fmt.Sprint(float32(v))
					}
					if r.lo > 0 && v > r.lo && v < r.hi && !set[key] { // for a negative bound the neighbour is again "magnitude maximum - 1"
						missing = append(missing, "neighbour-of-bound "+key)
					}
				}
				c.Outcome(fmt.Sprintf("Float%d[%g,%g] reached %d", w, r.lo, r.hi, len(set)), true)
				if len(missing) > 0 {
					c.Violate(Violation{Sig: fmt.Sprintf("C18 unreachable-float-interior width=%d range=[%g,%g]", w, r.lo, r.hi),
						Detail: fmt.Sprintf("Float%dRange(%g,%g): %d interior values (integers and halves) are produced by no answer sequence within the bounds, e.g. %v (%d distinct values reached)", w, r.lo, r.hi, len(missing), missing[:min(len(missing), 10)], len(set)),
						Replay: map[string]any{"width": w, "lo": r.lo, "hi": r.hi, "missing": missing[:min(len(missing), 20)]}})
				}
			}})
		}
	}

	// (ii) edges within a few thousand draws: Example(seed), seed < 4096
	type er struct {
		name   string
		draw   func(seed int) string
		wanted []string
	}
	var ers []er
	addI := func(lo, hi int64) {
		g := rapid.Int64Range(lo, hi)
		w := []string{fmt.Sprint(lo), fmt.Sprint(hi)}
		if lo < 0 && hi > 0 {
			w = append(w, "0")
		}
		ers = append(ers, er{fmt.Sprintf("Int64Range(%d,%d)", lo, hi), func(s int) string { return fmt.Sprint(g.Example(s)) }, w})
	}
	addU := func(lo, hi uint64) {
		g := rapid.Uint64Range(lo, hi)
		ers = append(ers, er{fmt.Sprintf("Uint64Range(%d,%d)", lo, hi), func(s int) string { return fmt.Sprint(g.Example(s)) }, []string{fmt.Sprint(lo), fmt.Sprint(hi)}})
	}
	addF := func(lo, hi float64) {
		g := rapid.Float64Range(lo, hi)
		w := []string{fmt.Sprint(lo), fmt.Sprint(hi)}
		if lo < 0 && hi > 0 {
			w = append(w, "0")
		}
		ers = append(ers, er{fmt.Sprintf("Float64Range(%g,%g)", lo, hi), func(s int) string {
			v := g.Example(s)
			if v == 0 {
				v = 0 // -0 counts as zero
			}
			return fmt.Sprint(v)
		}, w})
	}
	for _, b := range []uint{1, 2, 3, 7, 8, 15, 16, 31, 32, 40, 53, 55, 56, 59, 60, 61, 62, 63} {
		sp := int64(1)<<b - 1
		addI(0, sp)
		addI(-sp, 0)
		addI(-sp/2-1, sp/2)
		addI(math.MaxInt64-sp, math.MaxInt64)
		addI(math.MinInt64, math.MinInt64+sp)
		addU(0, uint64(sp))
		addU(math.MaxUint64-uint64(sp), math.MaxUint64)
	}
	addI(math.MinInt64, math.MaxInt64)
	addU(0, math.MaxUint64)
	addU(0, 1<<63)
	addI(-3, 5)
	addI(100, 200)
	for _, r := range frs {
		if r.lo != r.hi {
			addF(r.lo, r.hi)
		}
	}
	// the 32-bit twins, where both bounds are float32 values (infinite bounds included)
	for _, r := range append(append([]fr{}, frs...), fr{0, inf}, fr{-inf, 0}, fr{-inf, -3}, fr{float64(float32(math.MaxFloat32)), inf}) {
		lo32, hi32 := float32(r.lo), float32(r.hi)
		if r.lo == r.hi || float64(lo32) != r.lo || float64(hi32) != r.hi {
			continue
		}
		g := rapid.Float32Range(lo32, hi32)
		w := []string{fmt.Sprint(lo32), fmt.Sprint(hi32)}
		if lo32 < 0 && hi32 > 0 {
			w = append(w, "0")
		}
		ers = append(ers, er{fmt.Sprintf("Float32Range(%g,%g)", lo32, hi32), func(s int) string {
			v := g.Example(s)
			if v == 0 {
				v = 0
			}
			return fmt.Sprint(v)
		}, w})
	}
	for _, r := range []fr{{0, inf}, {-inf, 0}, {-inf, -3}} {
		addF(r.lo, r.hi)
	}
	ers = append(ers,
		er{"Float64Max(0)", func(s int) string { return fmt.Sprint(rapid.Float64Max(0).Example(s)) }, []string{fmt.Sprint(-math.MaxFloat64)}},
		er{"Float64Min(0)", func(s int) string { return fmt.Sprint(rapid.Float64Min(0).Example(s)) }, []string{fmt.Sprint(math.MaxFloat64)}},
		er{"Float32Max(0)", func(s int) string { return fmt.Sprint(rapid.Float32Max(0).Example(s)) }, []string{fmt.Sprint(float32(-math.MaxFloat32))}},
		er{"Float32Min(0)", func(s int) string { return fmt.Sprint(rapid.Float32Min(0).Example(s)) }, []string{fmt.Sprint(float32(math.MaxFloat32))}},
		er{"Float64()", func(s int) string { return fmt.Sprint(rapid.Float64().Example(s)) }, []string{fmt.Sprint(-math.MaxFloat64), fmt.Sprint(math.MaxFloat64)}},
		er{"Int64Min(5)", func(s int) string { return fmt.Sprint(rapid.Int64Min(5).Example(s)) }, []string{"5", fmt.Sprint(int64(math.MaxInt64))}},
		er{"Int64Max(5)", func(s int) string { return fmt.Sprint(rapid.Int64Max(5).Example(s)) }, []string{"5", fmt.Sprint(int64(math.MinInt64)), "0"}},
		er{"Int16Max(-7)", func(s int) string { return fmt.Sprint(rapid.Int16Max(-7).Example(s)) }, []string{"-7", "-32768"}},
		er{"Int16Min(-7)", func(s int) string { return fmt.Sprint(rapid.Int16Min(-7).Example(s)) }, []string{"-7", "32767", "0"}},
		er{"Int8Max(0)", func(s int) string { return fmt.Sprint(rapid.Int8Max(0).Example(s)) }, []string{"0", "-128"}},
		er{"Int32Min(0)", func(s int) string { return fmt.Sprint(rapid.Int32Min(0).Example(s)) }, []string{"0", "2147483647"}},
		er{"IntMax(-1)", func(s int) string { return fmt.Sprint(rapid.IntMax(-1).Example(s)) }, []string{"-1", fmt.Sprint(math.MinInt)}},
		er{"Uint64Min(9)", func(s int) string { return fmt.Sprint(rapid.Uint64Min(9).Example(s)) }, []string{"9", fmt.Sprint(uint64(math.MaxUint64))}},
		er{"Uint16Max(9)", func(s int) string { return fmt.Sprint(rapid.Uint16Max(9).Example(s)) }, []string{"0", "9"}},
		er{"Uint32Min(1)", func(s int) string { return fmt.Sprint(rapid.Uint32Min(1).Example(s)) }, []string{"1", "4294967295"}},
		er{"ByteMin(250)", func(s int) string { return fmt.Sprint(rapid.ByteMin(250).Example(s)) }, []string{"250", "255"}},
		er{"UintptrMax(3)", func(s int) string { return fmt.Sprint(rapid.UintptrMax(3).Example(s)) }, []string{"0", "3"}},
		// every kind: the full-range generator and its one-sided shorthands reach the kind's own limits
		er{"Uint()", func(s int) string { return fmt.Sprint(rapid.Uint().Example(s)) }, []string{"0", fmt.Sprint(uint(math.MaxUint))}},
		er{"Uint8()", func(s int) string { return fmt.Sprint(rapid.Uint8().Example(s)) }, []string{"0", "255"}},
		er{"Byte()", func(s int) string { return fmt.Sprint(rapid.Byte().Example(s)) }, []string{"0", "255"}},
		er{"Uint32()", func(s int) string { return fmt.Sprint(rapid.Uint32().Example(s)) }, []string{"0", "4294967295"}},
		er{"Uint64()", func(s int) string { return fmt.Sprint(rapid.Uint64().Example(s)) }, []string{"0", fmt.Sprint(uint64(math.MaxUint64))}},
		er{"Uintptr()", func(s int) string { return fmt.Sprint(rapid.Uintptr().Example(s)) }, []string{"0", fmt.Sprint(^uintptr(0))}},
		er{"UintMin(1)", func(s int) string { return fmt.Sprint(rapid.UintMin(1).Example(s)) }, []string{"1", fmt.Sprint(uint(math.MaxUint))}},
		er{"Uint8Min(1)", func(s int) string { return fmt.Sprint(rapid.Uint8Min(1).Example(s)) }, []string{"1", "255"}},
		er{"Uint16Min(1)", func(s int) string { return fmt.Sprint(rapid.Uint16Min(1).Example(s)) }, []string{"1", "65535"}},
		er{"UintptrMin(1000)", func(s int) string { return fmt.Sprint(rapid.UintptrMin(1000).Example(s)) }, []string{"1000", fmt.Sprint(^uintptr(0))}},
		er{"Uint64Max(9)", func(s int) string { return fmt.Sprint(rapid.Uint64Max(9).Example(s)) }, []string{"0", "9"}},
		er{"Uint32Max(9)", func(s int) string { return fmt.Sprint(rapid.Uint32Max(9).Example(s)) }, []string{"0", "9"}},
		er{"Int()", func(s int) string { return fmt.Sprint(rapid.Int().Example(s)) }, []string{fmt.Sprint(math.MinInt), fmt.Sprint(math.MaxInt), "0"}},
		er{"Int16()", func(s int) string { return fmt.Sprint(rapid.Int16().Example(s)) }, []string{"-32768", "32767", "0"}},
		er{"Int64()", func(s int) string { return fmt.Sprint(rapid.Int64().Example(s)) }, []string{fmt.Sprint(int64(math.MinInt64)), fmt.Sprint(int64(math.MaxInt64)), "0"}},
		er{"IntMin(-7)", func(s int) string { return fmt.Sprint(rapid.IntMin(-7).Example(s)) }, []string{"-7", fmt.Sprint(math.MaxInt), "0"}},
		er{"Int8Min(-7)", func(s int) string { return fmt.Sprint(rapid.Int8Min(-7).Example(s)) }, []string{"-7", "127", "0"}},
		er{"Int32Max(5)", func(s int) string { return fmt.Sprint(rapid.Int32Max(5).Example(s)) }, []string{"5", "-2147483648", "0"}},
		er{"Int8Max(5)", func(s int) string { return fmt.Sprint(rapid.Int8Max(5).Example(s)) }, []string{"5", "-128", "0"}},
		er{"Int16Range(-32768,32767)", func(s int) string { return fmt.Sprint(rapid.Int16Range(-32768, 32767).Example(s)) }, []string{"-32768", "32767", "0"}},
		er{"Uint32Range(0,4294967295)", func(s int) string { return fmt.Sprint(rapid.Uint32Range(0, 4294967295).Example(s)) }, []string{"0", "4294967295"}},
		er{"UintptrRange(5,max)", func(s int) string { return fmt.Sprint(rapid.UintptrRange(5, ^uintptr(0)).Example(s)) }, []string{"5", fmt.Sprint(^uintptr(0))}},
		er{"Int8()", func(s int) string { return fmt.Sprint(rapid.Int8().Example(s)) }, []string{"-128", "127", "0"}},
		er{"Uint16()", func(s int) string { return fmt.Sprint(rapid.Uint16().Example(s)) }, []string{"0", "65535"}},
		er{"Int32()", func(s int) string { return fmt.Sprint(rapid.Int32().Example(s)) }, []string{"-2147483648", "2147483647", "0"}},
		er{"Float32Range(-1,1)", func(s int) string {
			v := rapid.Float32Range(-1, 1).Example(s)
			if v == 0 {
				v = 0
			}
			return fmt.Sprint(v)
		}, []string{"-1", "1", "0"}},
	)
	const perE = 6
	for i := 0; i < len(ers); i += perE {
		lo, hi := i, min(i+perE, len(ers))
		units = append(units, Unit{Name: fmt.Sprintf("C18/edges-within-4096-draws/%d-%d", lo, hi-1), Run: func(c *Ctx) {
			for _, e := range ers[lo:hi] {
				seen := map[string]int{}
				for s := 0; s < 4096; s++ {
					v := e.draw(s)
					if _, ok := seen[v]; !ok {
						seen[v] = s
					}
				}
				c.R.Evals += 4096
				c.R.States++
				c.R.Transitions += 4096
				c.Outcome(fmt.Sprintf("%s distinct=%d", e.name, len(seen)), true)
				var missing []string
				for _, w := range e.wanted {
					if _, ok := seen[w]; !ok {
						missing = append(missing, w)
					}
				}
				if len(missing) > 0 {
					c.Violate(Violation{Sig: "C18 edge-not-hit-in-4096-draws gen=" + e.name, Detail: fmt.Sprintf("%s: Example(seed) for seed 0..4095 never produced %v (%d distinct values)", e.name, missing, len(seen)),
						Replay: map[string]any{"generator": e.name, "missing": missing}})
				}
			}
		}})
	}

	// (iii) distinct test cases within a run, (iv) fresh seeds
	units = append(units, Unit{Name: "C18/distinct-cases-and-fresh-seeds", Run: func(c *Ctx) {
		prog := progUniqueCtx("body", BPass)
		prog8 := &LazyProgram{Name: "8xUint64", Base: func(string, string) Beh { return BPass }, Body: func(t *rapid.T, e *Env) {
			e.cur.Draws = fmt.Sprint(rapid.SliceOfN(rapid.Uint64(), 8, 8).Draw(t, "xs"))
		}}
		n := 64
		if !quick {
			n = 256
		}
		for s := 1; s <= n; s++ {
			env := NewEnv(nil, prog8.Base)
			RunCheck(prog8, env, Config{Checks: 100, Seed: uint64(s), NoFailFile: true, Name: "TestC18"})
			c.R.Evals++
			c.R.States++
			c.R.Transitions += int64(len(env.Invs))
			seen := map[string]int{}
			for _, inv := range env.Invs {
				seen[inv.Draws]++
			}
			c.Outcome(fmt.Sprintf("seed %d distinct %d", s, len(seen)), true)
			if len(seen) < len(env.Invs) || len(env.Invs) != 100 {
				c.Violate(Violation{Sig: "C18 repeated-test-cases-within-a-run", Detail: fmt.Sprintf("-rapid.seed=%d: %d test cases, only %d distinct draws of 8 full-range 64-bit integers", s, len(env.Invs), len(seen)), Replay: map[string]any{"seed": s}})
			}
		}
		// unseeded: two calls in this process, two calls in each of two other processes; the virtual clock is frozen
		var seeds []uint64
		for i := 0; i < 2; i++ {
			seeds = append(seeds, firstCaseSeeds(prog, 2)...)
		}
		self, _ := os.Executable()
		for i := 0; i < 2; i++ {
			out, err := exec.Command(self, "freshseeds").Output()
			if err != nil {
				c.R.HarnessErr = "freshseeds subprocess: " + err.Error()
				return
			}
			for _, f := range strings.Fields(string(out)) {
				var u uint64
				fmt.Sscan(f, &u)
				seeds = append(seeds, u)
			}
		}
		c.R.Evals += int64(len(seeds))
		c.Sample(map[string]any{"unseeded first-case seeds (4 in-process, 2x2 in other processes)": seeds})
		dup := map[uint64]int{}
		for _, s := range seeds {
			dup[s]++
		}
		wide := false
		for _, s := range seeds {
			if s >= 1<<40 {
				wide = true
			}
		}
		if !wide && len(seeds) == 8 {
			c.Violate(Violation{Sig: "C18 unseeded-seeds-confined-to-a-small-range", Detail: fmt.Sprintf("all 8 unseeded first-case seeds are below 2^40: %v - base seeds are not drawn from the 64-bit space (chance for a uniform 64-bit source: 2^-192)", seeds), Replay: map[string]any{"seeds": seeds}})
		}
		if len(dup) != len(seeds) || len(seeds) != 8 {
			c.Violate(Violation{Sig: "C18 unseeded-runs-repeat-a-seed", Detail: fmt.Sprintf("8 unseeded Check calls (4 in this process, 2 in each of 2 other processes, clock frozen) used first-case seeds %v", seeds), Replay: map[string]any{"seeds": seeds}})
		}
	}})
	// the long-running units first, so that they overlap with everything else
	sort.SliceStable(units, func(i, j int) bool {
		return strings.Contains(units[i].Name, "reach-float-interior") && !strings.Contains(units[j].Name, "reach-float-interior")
	})
	return units
}

// firstCaseSeeds runs n unseeded Checks and returns the seed of the first test case of each.
func firstCaseSeeds(prog *LazyProgram, n int) []uint64 {
	var out []uint64
	for i := 0; i < n; i++ {
		env := NewEnv(nil, prog.Base)
		RunCheck(prog, env, Config{Checks: 1, Seed: 0, NoFailFile: true, Name: "TestFresh"})
		if len(env.Seeds) >= 2 {
			out = append(out, env.Seeds[1].Seed)
		}
	}
	return out
}

// FreshSeedsMain prints the first-case seeds of two unseeded Checks (used across processes).
func FreshSeedsMain() {
	for _, s := range firstCaseSeeds(progUniqueCtx("body", BPass), 2) {
		fmt.Println(s)
	}
}

func init() {
	Register(&Check{
		ID:    "C18",
		Level: "model_checking",
		Rule: "(i) EF queries by E1 (PRNG-faithful streams): all 8-bit ranges (thorough: all 32 896 per kind; quick: every span size at 6 placements) of Uint8/Byte/Int8 must produce every allowed value; Uint64/Int64 ranges of every span bit length 1..64 (spans 2^b-1, 2^b-2, 2^(b-1)) at both type extremes and around zero must produce lo+a for every alphabet word a, min, max, 0, +-2^j; 13 float ranges x {32,64} must produce min, max, 0. " +
			"(ii) {Example(seed): seed<4096} contains min, max and 0 for ~150 ranges. (iii) 100 test cases of a run drawing 64 bits are pairwise different for seeds 1..64/256. (iv) 8 unseeded Check calls (3 processes, frozen virtual clock) use 8 different first-case seeds. " +
			"distinct = distinct (range, #values reached); non-trivial = range with more than one value.",
		Assumptions: []string{"freshness (iv) depends on the runtime's hash seed, which no harness can enumerate: this clause observes 8 runs and is not exhaustive", "'a few thousand draws' is decided literally as seeds 0..4095 of the real PRNG"},
		Units:       c18Units,
		Budget:      map[string]time.Duration{"quick": 80 * time.Second, "thorough": 25 * time.Minute},
	})
}
