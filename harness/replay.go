package harness

import (
	"encoding/json"
	"fmt"
	"os"
)

// Replayers re-run one recorded violation without the explorer; keyed by property id.
var Replayers = map[string]func(rep map[string]any) (string, bool){}

func ReplayMain(path string) int {
	b, err := os.ReadFile(path)
	if err != nil {
		fmt.Println(err)
		return 2
	}
	var f struct {
		Property  string         `json:"property"`
		Signature string         `json:"signature"`
		Detail    string         `json:"detail"`
		Replay    map[string]any `json:"replay"`
	}
	if err := json.Unmarshal(b, &f); err != nil {
		fmt.Println(err)
		return 2
	}
	fmt.Printf("property %s\nsignature %s\n%s\n", f.Property, f.Signature, f.Detail)
	rp := Replayers[f.Property]
	if rp == nil {
		fmt.Println("(no standalone replayer for this property; the replay section holds the inputs)")
		return 0
	}
	msg, reproduced := rp(f.Replay)
	fmt.Println(msg)
	if reproduced {
		fmt.Println("REPRODUCED")
		return 1
	}
	fmt.Println("not reproduced on the current tree")
	return 0
}
