package harness

import (
	"encoding/json"
	"fmt"
	"os"
	"time"
)

// ReplayMain re-runs, without the parent/worker machinery, the unit that produced a recorded violation
// and reports whether a violation with the same signature appears again on the current tree.
// Exit status 1 = reproduced, 0 = not reproduced.
func ReplayMain(path string) int {
	b, err := os.ReadFile(path)
	if err != nil {
		fmt.Println(err)
		return 2
	}
	var f struct {
		Property  string         `json:"property"`
		Signature string         `json:"signature"`
		Detail    string         `json:"detail"`
		Replay    map[string]any `json:"replay"`
	}
	if err := json.Unmarshal(b, &f); err != nil {
		fmt.Println(err)
		return 2
	}
	fmt.Printf("property  %s\nsignature %s\nrecorded  %s\n", f.Property, f.Signature, trunc(f.Detail, 1500))
	ck := Lookup(f.Property)
	unit, _ := f.Replay["unit"].(string)
	tier, _ := f.Replay["tier"].(string)
	var seed int64
	if v, ok := f.Replay["seed"].(float64); ok {
		seed = int64(v)
	}
	if ck == nil || unit == "" {
		fmt.Println("(the replay section holds the inputs; no unit recorded)")
		return 0
	}
	for i, u := range unitsFor(ck, tier, seed) {
		if u.Name != unit {
			continue
		}
		res := RunUnit(u, i, tier, seed, time.Now().Add(20*time.Minute))
		for _, v := range res.Violations {
			if v.Sig == f.Signature {
				fmt.Printf("\nREPRODUCED on the current tree by unit %q:\n%s\n", unit, trunc(v.Detail, 3000))
				return 1
			}
		}
		fmt.Printf("\nnot reproduced: unit %q ran %d executions, %d other violation signature(s)\n", unit, res.Evals, len(res.Violations))
		return 0
	}
	fmt.Printf("unit %q no longer exists\n", unit)
	return 2
}
