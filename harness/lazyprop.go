package harness

// E2: the property function as a lazy demonic environment.
//
// A base program fixes which generators are drawn and a default behaviour per
// input. Whenever the running property reaches a decision point it asks the
// environment what to do for this (context, draws-so-far) key; the answer is
// memoised for the whole run, so within one run the property *is* a
// deterministic function of its draws, while across runs the explorer
// enumerates all assignments of behaviours to the keys that actually occur
// (DFS, iterated deviation bound). The run itself is the public rapid.Check on
// a fake TB, with rapid's flags set through the flag package.

import (
	"errors"
	"flag"
	"fmt"
	"os"
	"path/filepath"
	"regexp"
	"sort"
	"strings"
	"sync"
	"time"

	"pgregory.net/rapid"
)

type Beh int

const (
	BPass Beh = iota
	BSkip
	BErrorf
	BErrorfSkip
	BFail
	BFatalA
	BFatalB
	BFailNowC
	BFatal // t.Fatal(args)
	BError // t.Error(args)
	BPanicStr
	BPanicErr
	BPanicStruct
	BPanicNil
	BNilDeref
	BIndexOOR
	BCleanupErrorf
	BCleanupPanic
	BCleanupFatal
	BCleanupCleanupErrorf // a cleanup that registers a cleanup that Errorfs
	BGoErrorf             // Errorf from another goroutine, joined before returning
	BGoFail
	BSkipNow
	BSkipf
	BCleanupPass // registers a harmless cleanup
	// C10 recipes (performed by c10Perform, which logs monitor events)
	BRcpNone
	BRcp1
	BRcp3
	BRcpNested
	BRcpPanicMid
	BRcpErrorfMid
	BRcpCtxInCleanup
	BRcpThenFatal
	BRcpThenSkip
	BRcpThenPanic
	BRcpThenErrorf
	BRcpCustom
	BRcpCustomSkip
	BRcpGoroutineCleanup
	BRcpCustomFatal
	BRcpCustomPanic
	BRcpCleanupSkips
	BRcpSkipWithCleanupErrorf
	// more per-case behaviours (appended to keep the numbering of the others stable)
	BCleanupErrorfSkip      // registers a cleanup that Errorfs, then skips
	BErrorfReject           // Errorf, then a draw that is rejected as invalid data (not through Skip)
	BCleanupSkip            // registers a cleanup that calls Skip
	BErrorEmpty             // t.Error() with no arguments
	BErrorfEmpty            // t.Errorf("")
	BFailNowD               // FailNow at another call stack than BFailNowC: same message, different site
	BPanicDivA              // integer divide by zero at site A
	BPanicDivB              // integer divide by zero at site B (same message, different site)
	BCleanupSkipThenFatal   // registers a cleanup that skips, then Fatalf
	BCleanupSkipThenPanic   // registers a cleanup that skips, then a plain panic
	BCleanupRejectThenFatal // registers a cleanup whose draw is rejected, then Fatalf
	BCleanupRejectThenPanic // registers a cleanup whose draw is rejected, then a plain panic
	BErrorfThenFatalA       // Errorf, then Fatalf at site A in the same test case
	BRcpTwoPanickingCleanups
	BRcpFatalAndSkipCleanups
	BRcpThreeAbnormalCleanups
	BRcpNilCleanup
	BRcpCustomDrawnInCleanup
	// two cleanups, the one registered later (run first) falsifies, the older one then skips / has a rejected draw
	BCleanupSkipCleanupPanic
	BCleanupSkipCleanupFatal
	BCleanupRejectCleanupPanic
	BCleanupPanicCleanupSkip  // the other order: the skip is in flight when the older cleanup panics
	BCleanupErrorfCleanupSkip // the newer cleanup skips (ends abnormally), the older one then fails non-fatally
	BCleanupPanicThenSkip     // registers a cleanup that panics, then the body skips
	BCleanupPanicThenReject   // registers a cleanup that panics, then a draw of the body is rejected
	BCleanupNilMapThenSkip    // registers a cleanup that ends in a run-time error, then the body skips
	BRcpCtxOnlyInCleanup
	BRcpPanicThenCtxInOlderCleanup
	BRcpSkipThenCtxInOlderCleanup
	BRcpOldestRegistersThenPanics
	BRcpOldestRegistersThenSkips
	BRcpOldestRegistersThenFatal
	BCleanupErrorfCleanupSkipThenSkip // older cleanup Errorfs, newer cleanup skips, and the body skips as well
	BErrorfThenPanic                  // Errorf, then an unrelated plain panic
	BCleanupFatalThenPanic            // registers a cleanup that calls Fatalf, then a plain panic
	BFatalDeepA                       // Fatalf 42 frames below site A': a recursion deeper than any fixed traceback length
	BFatalDeepB                       // the same 42 innermost frames, reached from site B'
	numBeh
)

var behNames = [...]string{"pass", "Skip", "Errorf", "Errorf;Skip", "Fail", "Fatalf@A", "Fatalf@B", "FailNow@C", "Fatal", "Error",
	"panic(string)", "panic(error)", "panic(struct)", "panic(nil)", "nil-deref", "index-out-of-range",
	"Cleanup(Errorf)", "Cleanup(panic)", "Cleanup(Fatalf)", "Cleanup(Cleanup(Errorf))", "go-Errorf", "go-Fail", "SkipNow", "Skipf", "Cleanup(pass)",
	"rcp:none", "rcp:1-cleanup", "rcp:3-cleanups", "rcp:nested-registration", "rcp:middle-cleanup-panics", "rcp:middle-cleanup-Errorfs", "rcp:Context-in-cleanup",
	"rcp:cleanups-then-Fatalf", "rcp:cleanups-then-Skip", "rcp:cleanups-then-panic", "rcp:cleanups-then-Errorf", "rcp:Custom-with-cleanups", "rcp:Custom-skips-once", "rcp:cleanup-registered-from-goroutine", "rcp:Custom-registers-then-Fatalf", "rcp:Custom-registers-then-panics", "rcp:last-cleanup-skips", "rcp:Skip-with-Cleanup(Errorf)",
	"Cleanup(Errorf);Skip", "Errorf;rejected-draw", "Cleanup(Skip)", "Error()", `Errorf("")`, "FailNow@D", "div-by-zero@A", "div-by-zero@B",
	"Cleanup(Skip);Fatalf", "Cleanup(Skip);panic", "Cleanup(rejected-draw);Fatalf", "Cleanup(rejected-draw);panic", "Errorf;Fatalf@A",
	"rcp:two-panicking-cleanups-above-a-plain-one", "rcp:Fatalf-cleanup-and-Skip-cleanup-above-plain-ones", "rcp:three-abnormal-cleanups-interleaved", "rcp:nil-cleanup-between-real-ones", "rcp:Custom-drawn-inside-a-cleanup",
	"Cleanup(Skip)+Cleanup(panic)", "Cleanup(Skip)+Cleanup(Fatalf)", "Cleanup(rejected-draw)+Cleanup(panic)", "Cleanup(panic)+Cleanup(Skip)", "Cleanup(Errorf)+Cleanup(Skip)",
	"Cleanup(panic);Skip", "Cleanup(panic);rejected-draw", "Cleanup(nil-map-write);Skip",
	"rcp:Context-only-inside-a-cleanup", "rcp:newer-cleanup-panics-then-older-one-asks-for-Context", "rcp:newer-cleanup-skips-then-older-one-asks-for-Context",
	"rcp:oldest-cleanup-registers-another-then-panics", "rcp:oldest-cleanup-registers-another-then-skips", "rcp:oldest-cleanup-registers-another-then-Fatalf",
	"Cleanup(Errorf)+Cleanup(Skip);Skip", "Errorf;panic", "Cleanup(Fatalf);panic",
	"Fatalf@deep-A", "Fatalf@deep-B"}

func (b Beh) String() string { return behNames[b] }

// Falsifies: does performing b signal a failure of the test case?
func (b Beh) Falsifies() bool {
	switch b {
	case BPass, BSkip, BSkipNow, BSkipf, BCleanupPass:
		return false
	case BRcpPanicMid, BRcpErrorfMid, BRcpThenFatal, BRcpThenPanic, BRcpThenErrorf, BRcpCustomFatal, BRcpCustomPanic, BRcpSkipWithCleanupErrorf:
		return true
	case BCleanupSkip:
		return false
	}
	if b >= BRcpNone && b < BCleanupErrorfSkip {
		return false
	}
	switch b {
	case BRcpTwoPanickingCleanups, BRcpFatalAndSkipCleanups, BRcpThreeAbnormalCleanups:
		return true
	case BRcpNilCleanup, BRcpCustomDrawnInCleanup, BRcpCtxOnlyInCleanup, BRcpSkipThenCtxInOlderCleanup, BRcpOldestRegistersThenSkips:
		return false
	}
	return true
}

// Skips: does b (also) skip?
func (b Beh) Skips() bool {
	switch b {
	case BSkip, BErrorfSkip, BSkipNow, BSkipf, BRcpThenSkip, BCleanupErrorfSkip, BCleanupSkip, BRcpCleanupSkips, BRcpSkipWithCleanupErrorf, BRcpSkipThenCtxInOlderCleanup, BRcpOldestRegistersThenSkips, BCleanupErrorfCleanupSkipThenSkip:
		return true
	}
	return false
}

// Fatal: does b stop the invocation at a definite call stack (a "site")?
func (b Beh) Site() string {
	switch b {
	case BFatalA:
		return "A"
	case BFatalB:
		return "B"
	case BFailNowC:
		return "C"
	case BFailNowD:
		return "D"
	case BPanicDivA:
		return "DA"
	case BPanicDivB:
		return "DB"
	case BFatal:
		return "F"
	case BPanicStr, BPanicErr, BPanicStruct, BPanicNil:
		return "P"
	case BFatalDeepA:
		return "deepA"
	case BFatalDeepB:
		return "deepB"
	case BCleanupSkipThenFatal, BCleanupRejectThenFatal, BErrorfThenFatalA:
		return "A"
	case BCleanupSkipThenPanic, BCleanupRejectThenPanic:
		return "P"
	case BNilDeref:
		return "N"
	case BIndexOOR:
		return "I"
	case BCleanupPanic:
		return "CP"
	case BCleanupFatal:
		return "CF"
	case BErrorf, BFail, BError, BErrorfSkip, BCleanupErrorf, BCleanupCleanupErrorf, BGoErrorf, BGoFail, BCleanupErrorfSkip, BErrorfReject, BErrorEmpty, BErrorfEmpty, BCleanupErrorfCleanupSkip:
		return "nonfatal"
	}
	return ""
}

type customErr struct{ code int }

func (e customErr) Error() string { return fmt.Sprintf("custom error %d", e.code) }

// the failure sites: distinct functions so that tracebacks differ
//
// the message contains a literal per cent sign and verbs: whoever reports it must treat it as data, not as a format
//
//go:noinline
func siteA(t *rapid.T, msg string) { t.Fatalf("site A (100%%, %%d %%v): %s", msg) }

// two sites that differ only in the frame below a 36-deep recursion
//
//go:noinline
func deepSiteA(t *rapid.T, msg string) { deepRecurse(36, t, msg) }

//go:noinline
func deepSiteB(t *rapid.T, msg string) { deepRecurse(36, t, msg) }

//go:noinline
func deepRecurse(n int, t *rapid.T, msg string) {
	if n == 0 {
		t.Fatalf("deep site: %s", msg)
		return
	}
	deepRecurse(n-1, t, msg)
}

//go:noinline
func siteB(t *rapid.T, msg string) { t.Fatalf("site B: %s", msg) }

//go:noinline
func siteC(t *rapid.T) { t.FailNow() }

//go:noinline
func siteD(t *rapid.T) { t.FailNow() }

//go:noinline
func siteDivA(z int) int { return 1 / z }

//go:noinline
func siteDivB(z int) int { return 2 / z }

//go:noinline
func sitePanic(v any) { panic(v) }

//go:noinline
func siteNil() int {
	var p *struct{ x int }
	return p.x
}

//go:noinline
func siteIdx(i int) int {
	s := []int{1}
	return s[i+1]
}

// Perform carries out behaviour b on t. msg identifies the input (it ends up in failure messages).
func Perform(t *rapid.T, b Beh, msg string) {
	switch b {
	case BPass:
	case BSkip:
		t.Skip("skip " + msg)
	case BSkipNow:
		t.SkipNow()
	case BSkipf:
		t.Skipf("skipf %s", msg)
	case BErrorf:
		t.Errorf("nonfatal: %s", msg)
	case BError:
		t.Error("nonfatal:", msg)
	case BErrorfSkip:
		t.Errorf("nonfatal: %s", msg)
		t.Skip("skip after error " + msg)
	case BFail:
		t.Fail()
	case BFatalA:
		siteA(t, msg)
	case BFatalB:
		siteB(t, msg)
	case BFailNowC:
		siteC(t)
	case BFatal:
		t.Fatal("fatal:", msg)
	case BPanicStr:
		sitePanic("boom %v 5% " + msg)
	case BPanicErr:
		sitePanic(errors.New("boom error " + msg))
	case BPanicStruct:
		sitePanic(customErr{len(msg)})
	case BPanicNil:
		sitePanic(nil)
	case BNilDeref:
		siteNil()
	case BIndexOOR:
		siteIdx(len(msg))
	case BCleanupErrorf:
		t.Cleanup(func() { t.Errorf("nonfatal in cleanup: %s", msg) })
	case BCleanupPanic:
		t.Cleanup(func() { sitePanic("boom in cleanup " + msg) })
	case BCleanupFatal:
		t.Cleanup(func() { t.Fatalf("fatal in cleanup: %s", msg) })
	case BCleanupCleanupErrorf:
		t.Cleanup(func() { t.Cleanup(func() { t.Errorf("nonfatal in nested cleanup: %s", msg) }) })
	case BCleanupPass:
		// harmless, but it asks for the context (a cancelled one at that point): nothing of it may reach the next test case
		t.Cleanup(func() { _ = t.Context() })
	case BGoErrorf:
		var wg sync.WaitGroup
		wg.Add(1)
		go func() { defer wg.Done(); t.Errorf("nonfatal from goroutine: %s", msg) }()
		wg.Wait()
	case BGoFail:
		var wg sync.WaitGroup
		wg.Add(1)
		go func() { defer wg.Done(); t.Fail() }()
		wg.Wait()
	case BErrorfThenFatalA:
		t.Errorf("nonfatal: %s", msg)
		siteA(t, msg)
	case BCleanupSkipThenFatal:
		t.Cleanup(func() { t.Skip("skip from cleanup " + msg) })
		siteA(t, msg)
	case BCleanupSkipThenPanic:
		t.Cleanup(func() { t.SkipNow() })
		sitePanic("boom %v 5% " + msg)
	case BCleanupRejectThenFatal:
		t.Cleanup(func() { rejectingGen.Draw(t, "never") })
		siteA(t, msg)
	case BCleanupRejectThenPanic:
		t.Cleanup(func() { rejectingGen.Draw(t, "never") })
		sitePanic("boom %v 5% " + msg)
	case BFailNowD:
		siteD(t)
	case BPanicDivA:
		siteDivA(len(msg) - len(msg))
	case BPanicDivB:
		siteDivB(len(msg) - len(msg))
	case BCleanupErrorfSkip:
		t.Cleanup(func() { t.Errorf("nonfatal in cleanup: %s", msg) })
		t.Skip("skip with failing cleanup " + msg)
	case BErrorfReject:
		t.Errorf("nonfatal: %s", msg)
		rejectingGen.Draw(t, "never")
	case BCleanupSkip:
		t.Cleanup(func() { t.Skip("skip from cleanup " + msg) })
	case BCleanupSkipCleanupPanic:
		t.Cleanup(func() { t.Skip("skip from the older cleanup " + msg) })
		t.Cleanup(func() { sitePanic("boom in cleanup " + msg) })
	case BCleanupSkipCleanupFatal:
		t.Cleanup(func() { t.SkipNow() })
		t.Cleanup(func() { t.Fatalf("fatal in cleanup: %s", msg) })
	case BCleanupRejectCleanupPanic:
		t.Cleanup(func() { rejectingGen.Draw(t, "never") })
		t.Cleanup(func() { sitePanic("boom in cleanup " + msg) })
	case BCleanupPanicThenSkip:
		t.Cleanup(func() { sitePanic("boom in cleanup " + msg) })
		t.Skip("skip with a panicking cleanup " + msg)
	case BCleanupPanicThenReject:
		t.Cleanup(func() { sitePanic("boom in cleanup " + msg) })
		rejectingGen.Draw(t, "never")
	case BCleanupNilMapThenSkip:
		t.Cleanup(func() { var m map[string]int; m[msg] = 1 })
		t.SkipNow()
	case BCleanupErrorfCleanupSkip:
		t.Cleanup(func() { t.Errorf("nonfatal in cleanup: %s", msg) })
		t.Cleanup(func() { t.Skip("skip from the newer cleanup " + msg) })
	case BCleanupPanicCleanupSkip:
		t.Cleanup(func() { sitePanic("boom in cleanup " + msg) })
		t.Cleanup(func() { t.Skip("skip from the newer cleanup " + msg) })
	case BCleanupErrorfCleanupSkipThenSkip:
		t.Cleanup(func() { t.Errorf("nonfatal in cleanup: %s", msg) })
		t.Cleanup(func() { t.Skip("skip from the newer cleanup " + msg) })
		t.Skip("skip " + msg)
	case BErrorfThenPanic:
		t.Errorf("nonfatal: %s", msg)
		sitePanic("boom %v 5% " + msg)
	case BCleanupFatalThenPanic:
		t.Cleanup(func() { t.Fatalf("fatal in cleanup: %s", msg) })
		sitePanic("boom %v 5% " + msg)
	case BFatalDeepA:
		deepSiteA(t, msg)
	case BFatalDeepB:
		deepSiteB(t, msg)
	case BErrorEmpty:
		t.Error()
	case BErrorfEmpty:
		t.Errorf("")
	default:
		panic("harness: unknown behaviour")
	}
}

var rejectingGen = rapid.Int8().Filter(func(int8) bool { return false })

// Decision is one decision point reached during an invocation.
type Decision struct {
	Ctx string // body, custom, action:<name>, invariant, ...
	Key string // ctx + rendered draws so far
	Beh Beh
}

// Invocation is one call of the property function, as observed by the harness.
type Invocation struct {
	Idx       int
	Decisions []Decision
	Draws     string   // rendered top-level draws ("" if it never got that far)
	DrawLog   []string // "label: %#v" for every top-level draw, as rapid logs them
	Signalled []Beh    // falsifying behaviours performed in this invocation (ground truth)
	Skipped   bool     // a skipping behaviour was performed at top level
	Returned  bool     // the property function returned normally
	Words     []uint64
}

func (i *Invocation) Falsified() bool { return len(i.Signalled) > 0 }

// Sites returns the fatal site if any, else "nonfatal" if any non-fatal signal, else "".
func (i *Invocation) SiteOf() string {
	for _, b := range i.Signalled {
		if s := b.Site(); s != "nonfatal" {
			return s
		}
	}
	if len(i.Signalled) > 0 {
		return "nonfatal"
	}
	return ""
}

type KV struct {
	Key string `json:"key"`
	Beh Beh    `json:"beh"`
}

// Env is the demonic environment for one Check run.
type Env struct {
	Assign     map[string]Beh
	Base       func(ctx, key string) Beh
	Seen       []KV // keys in order of first appearance, with the behaviour they got
	seenIx     map[string]int
	Invs       []*Invocation
	cur        *Invocation
	Bufs       [][]uint64  // every buffer handed to newBufBitStream during the run (r5)
	BufInv     []int       // number of invocations started before that buffer was created
	BufPersist []bool      // recording on (the shrinker's second, adopting run) or off
	Seeds      []SeedEvent // every (re)seeding of a PRNG stream during the run (r1)
}

// SeedEvent: a PRNG stream was seeded when InvIdx invocations had been started.
type SeedEvent struct {
	Seed   uint64
	InvIdx int
}

func NewEnv(assign []KV, base func(ctx, key string) Beh) *Env {
	e := &Env{Assign: map[string]Beh{}, Base: base, seenIx: map[string]int{}}
	for _, kv := range assign {
		e.Assign[kv.Key] = kv.Beh
	}
	return e
}

// Begin must be called first thing in the property function.
func (e *Env) Begin() *Invocation {
	inv := &Invocation{Idx: len(e.Invs)}
	e.Invs = append(e.Invs, inv)
	e.cur = inv
	return inv
}

// Decide returns the behaviour for this decision point and records it.
func (e *Env) Decide(ctx, draws string) Beh {
	key := ctx + "|" + draws
	b, ok := e.Assign[key]
	if !ok {
		b = e.Base(ctx, draws)
	}
	if _, seen := e.seenIx[key]; !seen {
		e.seenIx[key] = len(e.Seen)
		e.Seen = append(e.Seen, KV{key, b})
	}
	e.cur.Decisions = append(e.cur.Decisions, Decision{ctx, key, b})
	return b
}

// Do decides and performs.
func (e *Env) Do(t *rapid.T, ctx, draws string) {
	b := e.Decide(ctx, draws)
	inv := e.cur
	if b.Falsifies() {
		inv.Signalled = append(inv.Signalled, b)
	}
	if b.Skips() && ctx == "body" {
		inv.Skipped = true
	}
	Perform(t, b, draws)
}

// LazyProgram is a base program: Body is the property function.
type LazyProgram struct {
	Name string
	Body func(t *rapid.T, e *Env)
	Base func(ctx, draws string) Beh
}

// Config of one Check run (all through rapid's public flags).
type Config struct {
	Checks     int
	Seed       uint64
	ShrinkMS   int // -rapid.shrinktime in virtual milliseconds (1 ms per property invocation); <0 = effectively unlimited
	NoFailFile bool
	Steps      int
	FailFile   string
	Verbose    bool
	Name       string
	Short      bool // -short: a fifth of the checks (and of the state-machine steps)
	DebugVis   bool // -rapid.debugvis: the shrinker also writes its visualization (vis-<name>.html in the working directory)
	KeepFlags  bool // do not touch the flags: this Check runs with whatever the previous one in the process left behind
}

func (c Config) String() string {
	return fmt.Sprintf("checks=%d seed=%d shrinkms=%d nofailfile=%v", c.Checks, c.Seed, c.ShrinkMS, c.NoFailFile)
}

var clockBase = time.Date(2026, 1, 2, 3, 4, 5, 0, time.UTC)

// RunLog is everything observable about one Check run.
type RunLog struct {
	Env     *Env
	TB      *FakeTB
	Escaped any
	Files   map[string]string // fail files present afterwards (relative path -> content)
	Cfg     Config
}

func setFlags(cfg Config) {
	must := func(err error) {
		if err != nil {
			panic("harness: flag.Set: " + err.Error())
		}
	}
	if cfg.Checks == 0 {
		cfg.Checks = 100
	}
	if cfg.Steps == 0 {
		cfg.Steps = 30
	}
	must(flag.Set("rapid.checks", fmt.Sprint(cfg.Checks)))
	must(flag.Set("rapid.steps", fmt.Sprint(cfg.Steps)))
	must(flag.Set("rapid.seed", fmt.Sprint(cfg.Seed)))
	must(flag.Set("rapid.nofailfile", fmt.Sprint(cfg.NoFailFile)))
	must(flag.Set("rapid.failfile", cfg.FailFile))
	must(flag.Set("rapid.v", fmt.Sprint(cfg.Verbose)))
	must(flag.Set("test.short", fmt.Sprint(cfg.Short)))
	must(flag.Set("rapid.debugvis", fmt.Sprint(cfg.DebugVis)))
	if cfg.ShrinkMS < 0 {
		must(flag.Set("rapid.shrinktime", "1h"))
	} else {
		must(flag.Set("rapid.shrinktime", fmt.Sprintf("%dms", cfg.ShrinkMS)))
	}
}

// RunCheck runs rapid.Check(fakeTB, prop) for the program under the environment.
// The virtual clock advances 1 ms per property invocation and is otherwise frozen.
func RunCheck(p *LazyProgram, env *Env, cfg Config) *RunLog {
	if !cfg.KeepFlags {
		defer flag.Set("test.short", "false")
		setFlags(cfg)
	}
	name := cfg.Name
	if name == "" {
		name = "TestLazy"
	}
	tb := NewTB(name)
	rapid.VerifSetClock(func() time.Time { return clockBase.Add(time.Duration(len(env.Invs)) * time.Millisecond) })
	rapid.VerifSetBufObserver(func(buf []uint64, persist bool) {
		env.Bufs = append(env.Bufs, append([]uint64(nil), buf...))
		env.BufInv = append(env.BufInv, len(env.Invs))
		env.BufPersist = append(env.BufPersist, persist)
	})
	rapid.VerifSetSeedObserver(func(seed uint64) { env.Seeds = append(env.Seeds, SeedEvent{seed, len(env.Invs)}) })
	defer rapid.VerifSetClock(nil)
	defer rapid.VerifSetBufObserver(nil)
	defer rapid.VerifSetSeedObserver(nil)
	log := &RunLog{Env: env, TB: tb, Cfg: cfg}
	ExecBegin("Check " + p.Name + " " + cfg.String())
	log.Escaped = Guard(func() {
		rapid.Check(tb, func(t *rapid.T) {
			inv := env.Begin()
			p.Body(t, env)
			inv.Returned = true
		})
	})
	ExecEnd()
	log.Files = ReadFailFiles()
	return log
}

// ReadFailFiles returns all files under ./testdata (the worker's private cwd).
func ReadFailFiles() map[string]string {
	out := map[string]string{}
	filepath.Walk("testdata", func(path string, info os.FileInfo, err error) error {
		if err == nil && !info.IsDir() {
			b, _ := os.ReadFile(path)
			out[path] = string(b)
		}
		return nil
	})
	return out
}

func CleanFailFiles() { os.RemoveAll("testdata") }

var (
	reAfter   = regexp.MustCompile(`\[rapid\] (failed|panic) after (\d+) tests?: `)
	reSeed    = regexp.MustCompile(`-rapid\.seed=([-+0-9A-Za-z_.]*)`) // whatever is printed there must be what the flag accepts
	reFF      = regexp.MustCompile(`-rapid\.failfile="([^"]*)"`)
	reOK      = regexp.MustCompile(`\[rapid\] OK, passed (\d+) tests`)
	reOnly    = regexp.MustCompile(`\[rapid\] only generated (\d+) valid tests from (\d+) total`)
	reDrawLog = regexp.MustCompile(`^\[rapid\] draw ([^:]*): (.*)$`)
)

// Verdict classifies what the TB was told.
type Verdict struct {
	Class     string // ok, failed, panic, flaky, only-generated, none
	After     int
	Passed    int
	Valid     int
	Total     int
	SeedStr   string
	FailFile  string
	ErrText   string
	FinalLogs []string // log lines after the failure message (the final replay's output)
}

func (l *RunLog) Verdict() Verdict {
	v := Verdict{Class: "none"}
	errIdx := -1
	for i, e := range l.TB.Events {
		if e.Kind == "error" || e.Kind == "fatal" {
			errIdx = i
			v.ErrText = e.Text
			switch {
			case strings.Contains(e.Text, "[rapid] flaky test"):
				v.Class = "flaky"
			case reAfter.MatchString(e.Text):
				m := reAfter.FindStringSubmatch(e.Text)
				v.Class = m[1]
				fmt.Sscan(m[2], &v.After)
			case reOnly.MatchString(e.Text):
				m := reOnly.FindStringSubmatch(e.Text)
				v.Class = "only-generated"
				fmt.Sscan(m[1], &v.Valid)
				fmt.Sscan(m[2], &v.Total)
			default:
				v.Class = "other-error"
			}
			if m := reSeed.FindStringSubmatch(e.Text); m != nil {
				v.SeedStr = m[1]
			}
			if m := reFF.FindStringSubmatch(e.Text); m != nil {
				v.FailFile = m[1]
			}
		}
		if e.Kind == "log" {
			if m := reOK.FindStringSubmatch(e.Text); m != nil {
				v.Class = "ok"
				fmt.Sscan(m[1], &v.Passed)
			}
		}
	}
	if errIdx >= 0 {
		for _, e := range l.TB.Events[errIdx+1:] {
			if e.Kind == "log" {
				v.FinalLogs = append(v.FinalLogs, e.Text)
			}
		}
	}
	return v
}

// LazyDFS enumerates behaviour assignments.
type LazyDFS struct {
	Prog     *LazyProgram
	Cfg      Config
	Alphabet func(ctx string) []Beh // alternatives per decision context
	P        int                    // only the first P distinct keys of a run are re-opened
	MaxDev   int
	MaxRuns  int64
	PreRun   func() // e.g. clean fail files, create files
	// OnlyUpToFirstFalsified: do not re-open keys first seen after the first falsifying key
	// (those are reproduction/minimization candidates)
	OnlyUpToFirstFalsified bool
	runs                   int64
}

func ctxOfKey(key string) string {
	if i := strings.IndexByte(key, '|'); i >= 0 {
		return key[:i]
	}
	return key
}

// Explore calls visit for every run in the bounded space.
func (d *LazyDFS) Explore(c *Ctx, visit func(log *RunLog, assign []KV, devs int)) {
	stop := false
	var rec func(assign []KV, devs int)
	rec = func(assign []KV, devs int) {
		if stop {
			return
		}
		if d.MaxRuns > 0 && d.runs >= d.MaxRuns {
			c.Cap(fmt.Sprintf("run cap %d", d.MaxRuns))
			stop = true
			return
		}
		if d.runs&63 == 0 && c.Expired() {
			c.Cap("time budget")
			stop = true
			return
		}
		d.runs++
		if d.PreRun != nil {
			d.PreRun()
		}
		env := NewEnv(assign, d.Prog.Base)
		log := RunCheck(d.Prog, env, d.Cfg)
		c.R.Evals++
		nw := int64(len(env.Seen) - len(assign) + 1)
		if nw < 1 {
			nw = 1
		}
		c.R.States += nw
		c.R.Transitions += int64(len(env.Invs))
		// replayed prefix must reappear in the same order
		for i, kv := range assign {
			if i >= len(env.Seen) || env.Seen[i].Key != kv.Key {
				c.Violate(Violation{Sig: "nondeterministic-replay-of-prefix prog=" + d.Prog.Name,
					Detail: fmt.Sprintf("replaying assignment %v: key %d reappeared as %v", assign, i, seenAt(env.Seen, i)),
					Replay: map[string]any{"program": d.Prog.Name, "assign": assign, "config": d.Cfg.String()}, Devs: devs})
				return
			}
		}
		visit(log, assign, devs)
		if devs >= d.MaxDev {
			return
		}
		for i := len(assign); i < len(env.Seen) && i < d.P; i++ {
			k := env.Seen[i]
			if d.OnlyUpToFirstFalsified && i > 0 && env.Seen[i-1].Beh.Falsifies() {
				break
			}
			for _, b := range d.Alphabet(ctxOfKey(k.Key)) {
				if b == k.Beh {
					continue
				}
				child := make([]KV, i+1)
				copy(child, env.Seen[:i])
				child[i] = KV{k.Key, b}
				rec(child, devs+1)
				if stop {
					return
				}
			}
		}
	}
	rec(nil, 0)
}

func seenAt(s []KV, i int) any {
	if i < len(s) {
		return s[i]
	}
	return "<absent>"
}

// InSearchPhase: Check is still generating fresh random test cases (no stream was re-seeded with the
// seed of the previous one, and no buffer replay has started).
func (e *Env) InSearchPhase() bool {
	if len(e.Bufs) > 0 {
		return false
	}
	for i := 1; i < len(e.Seeds); i++ {
		if e.Seeds[i].Seed == e.Seeds[i-1].Seed && e.Seeds[i].InvIdx == e.Seeds[i-1].InvIdx+1 {
			return false
		}
	}
	return true
}

// Blamed returns the invocation that findBug treated as falsifying: the one that ran on the
// last PRNG stream seeded before the reproduction stream (which is seeded with the same seed).
// nil if the run did not find a failing random case.
func (e *Env) Blamed() *Invocation {
	n := len(e.Seeds)
	if n < 2 || e.Seeds[n-1].Seed != e.Seeds[n-2].Seed || e.Seeds[n-1].InvIdx != e.Seeds[n-2].InvIdx+1 {
		return nil
	}
	i := e.Seeds[n-2].InvIdx
	if i < len(e.Invs) {
		return e.Invs[i]
	}
	return nil
}

// FirstFalsified returns the first invocation in which the property signalled a failure.
func (e *Env) FirstFalsified() *Invocation {
	for _, inv := range e.Invs {
		if inv.Falsified() {
			return inv
		}
	}
	return nil
}

// SummarizeInvs renders the invocation log compactly (for details and samples).
func SummarizeInvs(invs []*Invocation, max int) string {
	var b strings.Builder
	for i, inv := range invs {
		if i >= max {
			fmt.Fprintf(&b, " ...(+%d)", len(invs)-max)
			break
		}
		var ds []string
		for _, d := range inv.Decisions {
			ds = append(ds, fmt.Sprintf("%s=>%s", d.Key, d.Beh))
		}
		fmt.Fprintf(&b, "#%d[%s] ", inv.Idx, strings.Join(ds, ","))
	}
	return b.String()
}

func sortedKeys(m map[string]string) []string {
	var ks []string
	for k := range m {
		ks = append(ks, k)
	}
	sort.Strings(ks)
	return ks
}
