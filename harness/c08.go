package harness

// C08 - state-machine runs follow the check/action discipline.
// E1 over T.Repeat for all action sets of 1-3 actions drawn from 7 kinds x 7 invariant variants,
// around three base streams (all-zero, all-ones, and "continue, first action": every 53-bit draw 0.25);
// a regular-language monitor checks the event trace of every execution.

import (
	"flag"
	"fmt"
	"sort"
	"strconv"
	"strings"
	"testing"
	"time"

	"pgregory.net/rapid"
)

var c08Never = rapid.Bool().Filter(func(bool) bool { return false })

var c08Kinds = []string{"noop", "draw", "skipB", "skipA", "fatal", "errorf", "panic", "errorE", "errorfReject"}

type c08Trace struct {
	ev     []string
	active int
	nested bool
}

func (tr *c08Trace) log(s string) { tr.ev = append(tr.ev, s) }

func c08Action(tr *c08Trace, name, kind string) func(t *rapid.T) {
	return func(t *rapid.T) {
		tr.log("A:" + name)
		tr.active++
		if tr.active > 1 {
			tr.nested = true
		}
		defer func() { tr.active-- }()
		switch kind {
		case "noop":
			tr.log("E:ok")
		case "draw":
			rapid.Bool().Draw(t, "b")
			tr.log("E:ok")
		case "skipB":
			tr.log("E:skip")
			t.Skip("not applicable")
		case "skipA":
			rapid.Bool().Draw(t, "b")
			tr.log("E:skip")
			t.SkipNow()
		case "fatal":
			tr.log("E:fail")
			t.Fatalf("action %s fails", name)
		case "errorf":
			tr.log("E:fail")
			t.Errorf("action %s fails non-fatally", name)
		case "panic":
			tr.log("E:fail")
			panic("action " + name + " panics")
		case "errorfReject":
			// a non-fatal failure, then a draw that is rejected: the action ends as invalid data, but it has falsified
			tr.log("E:fail")
			t.Errorf("action %s fails non-fatally", name)
			c08Never.Draw(t, "never") // five tries of one bit each: the run goes on within the explored depth
		case "errorE":
			tr.log("E:fail")
			t.Error() // a non-fatal failure without any message
		}
	}
}

// invariant variants: "", "pass", "fatal@k", "errorf@k"
func c08Invariant(tr *c08Trace, variant string) func(t *rapid.T) {
	if variant == "" {
		return nil
	}
	calls := 0
	var k int
	kind := variant
	if i := strings.IndexByte(variant, '@'); i >= 0 {
		kind = variant[:i]
		fmt.Sscan(variant[i+1:], &k)
	}
	return func(t *rapid.T) {
		calls++
		tr.active++
		if tr.active > 1 {
			tr.nested = true
		}
		defer func() { tr.active-- }()
		if kind != "pass" && calls == k {
			tr.log("I:fail")
			if kind == "fatal" {
				t.Fatalf("invariant broken at call %d", calls)
			} else {
				t.Errorf("invariant broken (non-fatal) at call %d", calls)
			}
			return
		}
		tr.log("I:ok")
	}
}

// c08Monitor returns "" if the trace follows the discipline.
func c08Monitor(ev []string, hasInv bool) string {
	const (
		sStart   = iota // nothing yet
		sReady          // an action may start
		sNeedInv        // an action completed: the invariant must run next
		sInAct          // action begun, end marker expected
		sDone           // falsified: nothing may follow
	)
	st := sStart
	if !hasInv {
		st = sReady
	}
	for i, e := range ev {
		switch {
		case st == sDone:
			return fmt.Sprintf("event %d %q after the first falsification", i, e)
		case strings.HasPrefix(e, "I:"):
			if st != sStart && st != sNeedInv {
				return fmt.Sprintf("event %d: invariant ran when it should not (state %d): %v", i, st, ev[:i+1])
			}
			if e == "I:fail" {
				st = sDone
			} else {
				st = sReady
			}
		case strings.HasPrefix(e, "A:"):
			if st == sStart {
				return fmt.Sprintf("event %d: action %s ran before the initial invariant check", i, e)
			}
			if st == sNeedInv {
				return fmt.Sprintf("event %d: action %s ran although the invariant was not checked after the previous completed action", i, e)
			}
			if st != sReady {
				return fmt.Sprintf("event %d: action %s started in state %d", i, e, st)
			}
			st = sInAct
		case strings.HasPrefix(e, "E:"):
			if st != sInAct {
				return fmt.Sprintf("event %d: stray end marker", i)
			}
			switch e {
			case "E:ok":
				if hasInv {
					st = sNeedInv
				} else {
					st = sReady
				}
			case "E:skip":
				st = sReady
			case "E:fail":
				st = sDone
			}
		}
	}
	return ""
}

func BaseMid(n int) uint64 {
	if n == 53 {
		return 1 << 51 // 0.25: every coin says continue, every small biased draw takes its intbits as drawn
	}
	return 0
}

func c08Units(tier string, seed int64) []Unit {
	quick := tier != "thorough"
	var units []Unit
	invVariants := []string{"", "pass", "fatal@1", "fatal@2", "fatal@3", "errorf@1", "errorf@2"}
	var sets [][]string
	for _, a := range c08Kinds {
		sets = append(sets, []string{a})
		for _, b := range c08Kinds {
			sets = append(sets, []string{a, b})
			for _, cc := range c08Kinds {
				if quick && !(a <= b && b <= cc) {
					continue // quick: multisets only; thorough: every assignment of kinds to the sorted names
				}
				sets = append(sets, []string{a, b, cc})
			}
		}
	}
	names := []string{"a", "b", "c"}
	tb := NewTB("C08")
	tb.Quiet = true
	// thorough: the deviation bound is iterated over all action sets (every set at <=3, then every set
	// at <=4, then <=5), so that a time cap cuts the deepest layer and never leaves a set unexplored
	var layered []Unit
	layers := []int{3}
	if !quick {
		layers = []int{3, 4, 5}
	}
	for _, maxDev := range layers {
		for _, set := range sets {
			for _, inv := range invVariants {
				set, inv, maxDev := set, inv, maxDev
				uname := fmt.Sprintf("C08/actions=%s/invariant=%s", strings.Join(set, "+"), inv)
				if !quick {
					uname += fmt.Sprintf("/deviations<=%d", maxDev)
				}
				layered = append(layered, Unit{Name: uname, Run: func(c *Ctx) {
					allSkipB, allSkipA := true, true
					for _, k := range set {
						if k != "skipB" {
							allSkipB = false
						}
						if k != "skipA" {
							allSkipA = false
						}
					}
					type bd struct {
						base  func(int) uint64
						deep  bool
						label int
					}
					bases := []bd{{BaseZero, false, 0}, {BaseOnes, false, 1}, {BaseMid, false, 2}}
					if allSkipB {
						// the "100 skipped tries" path needs 2 draws per try: long streams, one deviation
						bases = append(bases, bd{BaseOnes, true, 1}, bd{BaseMid, true, 2})
					}
					for _, b := range bases {
						bi, base := b.label, b.base
						e := &BitDFS{Base: base, Depth: 20, MaxDev: 3, Overrun: false}
						e.Alpha = LevelAlpha(AlphaAll(3, AlphaEdge), AlphaAll(3, AlphaCoin), AlphaAll(2, AlphaCoin))
						e.MaxExecs = 40000
						if !quick {
							e.Depth, e.MaxDev, e.MaxExecs = 30, maxDev, 400000
							e.Alpha = LevelAlpha(AlphaAll(3, AlphaEdge), AlphaAll(3, AlphaCoin), AlphaAll(2, AlphaCoin), AlphaAll(2, AlphaCoin), AlphaAll(2, AlphaCoin))
						}
						if b.deep && maxDev > 3 {
							continue // the long one-deviation streams are covered in the first layer
						}
						if b.deep {
							e.Depth, e.MaxDev = 320, 1
							e.Alpha = LevelAlpha(AlphaAll(2, AlphaCoin))
						}
						c.R.Bounds = fmt.Sprintf("depth=%d deviations<=%d bases=zeros,ones,mid", e.Depth, e.MaxDev)
						e.Explore(c, func(src *Source, devs int) {
							tr := &c08Trace{}
							actions := map[string]func(*rapid.T){}
							for i, k := range set {
								actions[names[i]] = c08Action(tr, names[i], k)
							}
							if f := c08Invariant(tr, inv); f != nil {
								actions[""] = f
							}
							res := rapid.VerifRunSource(tb, src, false, func(t *rapid.T) { t.Repeat(actions) })
							trace := strings.Join(tr.ev, " ")
							nAct := strings.Count(trace, "A:")
							c.Outcome(kindName(res.Kind)+" "+trace, nAct > 0)
							replay := map[string]any{"engine": "bitdfs", "actions": set, "invariant": inv, "base": bi, "answers": src.Trace}
							viol := func(clause, detail string) {
								c.Violate(Violation{Sig: "C08 " + clause, Detail: fmt.Sprintf("%s\nactions %v (names a,b,c in this order), invariant %q\ntrace: %s\nresult: %s %q", detail, set, inv, trunc(trace, 600), kindName(res.Kind), res.Msg), Replay: replay, Devs: devs})
							}
							if msg := c08Monitor(tr.ev, inv != ""); msg != "" {
								viol("discipline "+sigOf(msg), msg)
							}
							if tr.nested {
								viol("two-callbacks-active", "an action or invariant started while another one was still running")
							}
							if strings.Contains(res.Msg, "can't find a valid (non-skipped) action") {
								c.Count("no_valid_action_failures", 1)
							}
							falsified := strings.Contains(trace, ":fail")
							if falsified && res.Kind != rapid.VerifFail && res.Kind != rapid.VerifPanic {
								viol("falsification-not-reported", "an action or the invariant signalled a failure but the test case was not reported as failed")
							}
							if !falsified && (res.Kind == rapid.VerifFail || res.Kind == rapid.VerifPanic) {
								if allSkipB && nAct > 0 && strings.Contains(res.Msg, "can't find a valid (non-skipped) action") {
									if nAct != 100 {
										viol("no-valid-action-tries", fmt.Sprintf("gave up after %d tries", nAct))
									}
								} else {
									viol("failure-without-falsification", "the test case failed although no action or invariant failed")
								}
							}
							if allSkipB && nAct > 0 && res.Kind != rapid.VerifFail && !src.Ended {
								viol("no-failure-when-no-action-can-run", "every action skipped without drawing, yet Repeat did not report a failure")
							}
							// the same clause for actions that find out only after drawing that they can not run
							if allSkipA && nAct > 0 && !falsified && res.Kind != rapid.VerifFail && !src.Ended {
								viol("no-failure-when-no-action-can-run kinds=all-skip-after-drawing", "every action skipped (after drawing), no action was able to run, yet Repeat returned normally and the test case passes")
							}
						})
					}
				}})
			}
		}
	}
	// actions built by StateMachineActions from the methods of a type: the entry named N runs method N
	// (both accepted signatures, several methods of each), nothing else becomes an action
	units = append(units, Unit{Name: "C08/StateMachineActions/many-methods", Run: func(c *Ctx) {
		for bi, base := range []func(int) uint64{BaseZero, BaseOnes, BaseMid} {
			e := &BitDFS{Base: base, Depth: 24, MaxDev: 2, Alpha: LevelAlpha(AlphaAll(3, AlphaEdge), AlphaAll(2, AlphaCoin)), MaxExecs: 60000}
			if !quick {
				e.Depth, e.MaxDev, e.MaxExecs = 30, 3, 1000000
			}
			e.Explore(c, func(src *Source, devs int) {
				tr := &c08Trace{}
				m := &c08Machine{tr: tr}
				tbl := NewTB("C08")
				actions := rapid.StateMachineActions(m)
				var keys []string
				for k := range actions {
					keys = append(keys, k)
				}
				sort.Strings(keys)
				replay := map[string]any{"engine": "bitdfs", "machine": "c08Machine", "base": bi, "answers": src.Trace}
				if got := strings.Join(keys, ","); got != ",A1,A2,B1,B2,B3" {
					c.Violate(Violation{Sig: "C08 StateMachineActions-wrong-action-set", Detail: fmt.Sprintf("actions %q, want the invariant \"\" and A1,A2,B1,B2,B3", got), Replay: replay, Devs: devs})
					return
				}
				res := rapid.VerifRunSource(tbl, src, true, func(t *rapid.T) { t.Repeat(actions) })
				trace := strings.Join(tr.ev, " ")
				c.Outcome(kindName(res.Kind)+" "+trace, strings.Contains(trace, "A:"))
				if msg := c08Monitor(tr.ev, true); msg != "" {
					c.Violate(Violation{Sig: "C08 discipline " + sigOf(msg), Detail: msg + "\ntrace: " + trunc(trace, 400), Replay: replay, Devs: devs})
				}
				// every executed method is the one whose name was drawn as the action key just before it
				var drawn []string
				for _, ev := range tbl.Events {
					if ev.Kind == "log" && strings.HasPrefix(ev.Text, "[rapid] draw action: ") {
						k, _ := strconv.Unquote(strings.TrimSpace(strings.TrimPrefix(ev.Text, "[rapid] draw action: ")))
						drawn = append(drawn, k)
					}
				}
				var ran []string
				for _, ev := range tr.ev {
					if strings.HasPrefix(ev, "A:") {
						ran = append(ran, ev[2:])
					}
				}
				if strings.Join(ran, ",") != strings.Join(drawn, ",") {
					c.Violate(Violation{Sig: "C08 another-action-ran", Detail: fmt.Sprintf("action keys drawn: %v\nmethods that ran:   %v", drawn, ran), Replay: replay, Devs: devs})
				}
			})
		}
	}})
	// histories that end in a stuck machine: a step completes, then an action's first draw gives up (its
	// Filter runs out of tries: invalid data, not a skip), and from then on every action skips before
	// drawing. Repeat must then report "no valid action" and not return normally.
	for _, withStep := range []bool{false, true} {
		withStep := withStep
		units = append(units, Unit{Name: fmt.Sprintf("C08/give-up-then-stuck/completed-step-first=%v", withStep), Run: func(c *Ctx) {
			never := rapid.Bool().Filter(func(bool) bool { return false })
			for bi, base := range []func(int) uint64{BaseZero, BaseOnes, BaseMid} {
				e := &BitDFS{Base: base, Depth: 16, MaxDev: 2, Alpha: LevelAlpha(AlphaAll(2, AlphaEdge), AlphaAll(2, AlphaCoin)), MaxExecs: 30000}
				if !quick {
					e.Depth, e.MaxDev, e.MaxExecs = 24, 3, 600000
				}
				e.Explore(c, func(src *Source, devs int) {
					tr := &c08Trace{}
					phase := 0
					if !withStep {
						phase = 1
					}
					stuckTries := 0
					actions := map[string]func(*rapid.T){
						"": func(t *rapid.T) { tr.log("I:ok") },
						"a": func(t *rapid.T) {
							tr.log("A:a")
							switch phase {
							case 0:
								rapid.Bool().Draw(t, "b")
								phase = 1
								tr.log("E:ok")
							case 1:
								phase = 2
								tr.log("E:skip") // for the monitor an abandoned action is like a skipped one
								never.Draw(t, "never")
							default:
								stuckTries++
								tr.log("E:skip")
								t.Skip("stuck")
							}
						},
						"b": func(t *rapid.T) {
							tr.log("A:b")
							if phase == 2 {
								stuckTries++
							}
							tr.log("E:skip")
							t.Skip("never applicable")
						},
					}
					res := rapid.VerifRunSource(tb, src, false, func(t *rapid.T) { t.Repeat(actions) })
					trace := strings.Join(tr.ev, " ")
					c.Outcome(fmt.Sprintf("%s phase=%d stuck=%v %d", kindName(res.Kind), phase, stuckTries > 0, len(tr.ev)), stuckTries > 0)
					replay := map[string]any{"engine": "bitdfs", "scenario": "give-up-then-stuck", "withStep": withStep, "base": bi, "answers": src.Trace}
					if msg := c08Monitor(tr.ev, true); msg != "" {
						c.Violate(Violation{Sig: "C08 discipline " + sigOf(msg), Detail: msg + "\ntrace: " + trunc(trace, 400), Replay: replay, Devs: devs})
					}
					if stuckTries > 0 && !src.Ended && !(res.Kind == rapid.VerifFail && strings.Contains(res.Msg, "can't find a valid (non-skipped) action")) {
						c.Violate(Violation{Sig: "C08 no-failure-when-no-action-can-run history=give-up-then-stuck",
							Detail: fmt.Sprintf("after an action whose draw gave up, every action skips before drawing (%d tries seen), yet Repeat ended with %s %q\ntrace: %s", stuckTries, kindName(res.Kind), res.Msg, trunc(trace, 400)),
							Replay: replay, Devs: devs})
					}
				})
			}
		}})
	}
	// unusual step budgets: the initial invariant check does not depend on -rapid.steps / -short
	units = append(units, Unit{Name: "C08/step-budgets", Run: func(c *Ctx) {
		defer flag.Set("rapid.steps", "30")
		defer flag.Set("test.short", "false")
		for _, steps := range []string{"0", "1", "2", "3", "30", "-1"} {
			for _, short := range []string{"false", "true"} {
				flag.Set("rapid.steps", steps)
				flag.Set("test.short", short)
				for _, inv := range []string{"pass", "fatal@1"} {
					for bi, base := range []func(int) uint64{BaseZero, BaseOnes, BaseMid} {
						e := &BitDFS{Base: base, Depth: 12, MaxDev: 1, Alpha: LevelAlpha(AlphaAll(2, AlphaCoin))}
						e.Explore(c, func(src *Source, devs int) {
							tr := &c08Trace{}
							actions := map[string]func(*rapid.T){"a": c08Action(tr, "a", "draw"), "": c08Invariant(tr, inv)}
							res := rapid.VerifRunSource(tb, src, false, func(t *rapid.T) { t.Repeat(actions) })
							trace := strings.Join(tr.ev, " ")
							c.Outcome(fmt.Sprintf("steps=%s short=%s %s %s", steps, short, kindName(res.Kind), trace), true)
							replay := map[string]any{"engine": "bitdfs", "steps": steps, "short": short, "invariant": inv, "base": bi, "answers": src.Trace}
							if msg := c08Monitor(tr.ev, true); msg != "" {
								c.Violate(Violation{Sig: "C08 discipline " + sigOf(msg), Detail: fmt.Sprintf("-rapid.steps=%s -short=%s: %s\ntrace: %s", steps, short, msg, trunc(trace, 300)), Replay: replay, Devs: devs})
							}
							if len(tr.ev) == 0 || !strings.HasPrefix(tr.ev[0], "I:") {
								c.Violate(Violation{Sig: "C08 initial-invariant-check-missing", Detail: fmt.Sprintf("-rapid.steps=%s -short=%s: Repeat returned (%s) without running the invariant before any action; trace: %q", steps, short, kindName(res.Kind), trace), Replay: replay, Devs: devs})
							}
							if inv == "fatal@1" && res.Kind != rapid.VerifFail {
								c.Violate(Violation{Sig: "C08 falsification-not-reported", Detail: fmt.Sprintf("-rapid.steps=%s -short=%s: the invariant is broken in the initial state but the test case ended as %s", steps, short, kindName(res.Kind)), Replay: replay, Devs: devs})
							}
						})
					}
				}
			}
		}
	}})
	// the budget of tries per step at its edge: an action that says "not applicable" (skips before drawing) exactly k
	// times in a row and then runs. Up to 99 refusals the step completes - the action ran, so the invariant follows and
	// Repeat goes on; after 100 refusals in one step no action was able to run and Repeat reports that as a failure.
	units = append(units, Unit{Name: "C08/tries-per-step-at-the-edge-of-the-budget", Run: func(c *Ctx) {
		for _, k := range []int{0, 1, 2, 50, 98, 99, 100, 101, 150} {
			for _, nact := range []int{1, 2} {
				for sd := uint64(1); sd <= 6; sd++ {
					var ev []string
					refusals, ran := 0, 0
					act := func(t *rapid.T) {
						if refusals < k {
							refusals++
							t.Skip("not applicable yet")
						}
						ran++
						ev = append(ev, "A")
						rapid.Bool().Draw(t, "b")
					}
					actions := map[string]func(*rapid.T){"a": act, "": func(t *rapid.T) { ev = append(ev, "I") }}
					if nact == 2 {
						actions["b"] = act
					}
					res := rapid.VerifRunSeed(tb, sd*977+uint64(k), false, func(t *rapid.T) { t.Repeat(actions) })
					c.R.Evals++
					c.R.States++
					c.R.Transitions += int64(len(ev))
					trace := strings.Join(ev, "")
					c.Outcome(fmt.Sprintf("k=%d actions=%d %s ran=%v", k, nact, kindName(res.Kind), ran > 0), true)
					replay := map[string]any{"engine": "seed", "refusals": k, "actions": nact, "seed": sd*977 + uint64(k)}
					if strings.Contains(trace, "AA") || strings.HasSuffix(trace, "A") || !strings.HasPrefix(trace, "I") {
						c.Violate(Violation{Sig: "C08 discipline invariant-missing-after-an-action-at-the-edge-of-the-try-budget", Detail: fmt.Sprintf("%d refusals, then the action runs: trace %s (%s %q)", k, trunc(trace, 80), kindName(res.Kind), trunc(res.Msg, 80)), Replay: replay})
					}
					cantFind := res.Kind == rapid.VerifFail && strings.Contains(res.Msg, "can't find a valid")
					if k < 100 && cantFind {
						c.Violate(Violation{Sig: "C08 no-action-could-run-reported-although-one-ran", Detail: fmt.Sprintf("%d refusals in a row, then the action ran %d time(s); Repeat reported %q; trace %s", k, ran, trunc(res.Msg, 80), trunc(trace, 80)), Replay: replay})
					}
					if k >= 100 && ran == 0 && !cantFind && refusals >= 100 {
						c.Violate(Violation{Sig: "C08 stuck-machine-not-reported what=100-refusals-in-one-step", Detail: fmt.Sprintf("the action refused %d times in a row and never ran; the test case ended as %s %q", refusals, kindName(res.Kind), trunc(res.Msg, 80)), Replay: replay})
					}
				}
			}
		}
	}})
	// one machine type used both by value and through a pointer in the same process (the method sets differ), in both orders
	units = append(units, Unit{Name: "C08/StateMachineActions-by-value-and-by-pointer", Run: func(c *Ctx) {
		keys := func(m map[string]func(*rapid.T)) string {
			var ks []string
			for k := range m {
				ks = append(ks, fmt.Sprintf("%q", k))
			}
			sort.Strings(ks)
			return strings.Join(ks, ",")
		}
		safely := func(sm rapid.StateMachine, how string) (m map[string]func(*rapid.T)) {
			defer func() {
				if r := recover(); r != nil {
					c.Violate(Violation{Sig: "C08 reflective StateMachineActions-panics", Detail: fmt.Sprintf("StateMachineActions(%s): %v", how, r)})
					m = map[string]func(*rapid.T){}
				}
			}()
			return rapid.StateMachineActions(sm)
		}
		want := func(got map[string]func(*rapid.T), exp, how string) {
			c.R.Evals++
			c.R.States++
			c.Outcome(how+": "+keys(got), true)
			if keys(got) != exp {
				c.Violate(Violation{Sig: "C08 reflective action-set-wrong", Detail: fmt.Sprintf("StateMachineActions(%s) has the keys %s, the method set gives %s", how, keys(got), exp)})
			}
		}
		// type 1: pointer first, then value, then pointer again
		want(safely(&vmPtrFirst{}, "&vmPtrFirst{}"), `"","Add","Get"`, "&vmPtrFirst{}")
		want(safely(vmPtrFirst{}, "vmPtrFirst{}"), `"","Get"`, "vmPtrFirst{}")
		want(safely(&vmPtrFirst{}, "&vmPtrFirst{} again"), `"","Add","Get"`, "&vmPtrFirst{} again")
		// type 2: value first, then pointer
		want(safely(vmValFirst{}, "vmValFirst{}"), `"","Get"`, "vmValFirst{}")
		want(safely(&vmValFirst{}, "&vmValFirst{}"), `"","Add","Get"`, "&vmValFirst{}")
		// and the actions run the methods they are named after, the invariant is Check
		for _, how := range []string{"ptr", "val"} {
			calls = nil
			var acts map[string]func(*rapid.T)
			if how == "ptr" {
				acts = safely(&vmPtrFirst{}, "&vmPtrFirst{}")
			} else {
				acts = safely(vmPtrFirst{}, "vmPtrFirst{}")
			}
			rapid.VerifRunSeed(tb, 3, false, func(t *rapid.T) {
				for _, k := range []string{"Add", "Get", ""} {
					if f, ok := acts[k]; ok {
						f(t)
					}
				}
			})
			exp := "Add Get Check"
			if how == "val" {
				exp = "Get Check"
			}
			if strings.Join(calls, " ") != exp {
				c.Violate(Violation{Sig: "C08 reflective action-runs-another-method", Detail: fmt.Sprintf("machine used by %s: calling the actions Add, Get and the invariant ran %v", how, calls)})
			}
		}
	}})
	// StateMachineActions on a reflective machine
	units = append(units, Unit{Name: "C08/StateMachineActions", Run: func(c *Ctx) {
		for bi, base := range []func(int) uint64{BaseZero, BaseOnes, BaseMid} {
			e := &BitDFS{Base: base, Depth: 24, MaxDev: 3, Alpha: LevelAlpha(AlphaAll(3, AlphaEdge), AlphaAll(3, AlphaCoin), AlphaAll(2, AlphaCoin)), MaxExecs: 60000}
			e.Explore(c, func(src *Source, devs int) {
				m := &reflMachine{}
				res := rapid.VerifRunSource(tb, src, false, func(t *rapid.T) { t.Repeat(rapid.StateMachineActions(m)) })
				trace := strings.Join(m.tr.ev, " ")
				c.Outcome(kindName(res.Kind)+" "+trace, strings.Contains(trace, "A:"))
				if msg := c08Monitor(m.tr.ev, true); msg != "" {
					c.Violate(Violation{Sig: "C08 reflective discipline " + sigOf(msg), Detail: msg + "\ntrace: " + trunc(trace, 600), Replay: map[string]any{"engine": "bitdfs", "machine": "reflective", "base": bi, "answers": src.Trace}, Devs: devs})
				}
				if m.other > 0 {
					c.Violate(Violation{Sig: "C08 reflective non-action-method-called", Detail: "a method that is not an action was invoked", Replay: map[string]any{"answers": src.Trace}, Devs: devs})
				}
			})
		}
	}})
	return append(units, layered...)
}

type reflMachine struct {
	tr    c08Trace
	n     int
	other int
}

func (m *reflMachine) Inc(t *rapid.T) {
	m.tr.log("A:Inc")
	if rapid.Bool().Draw(t, "b") {
		m.n++
	}
	m.tr.log("E:ok")
}
func (m *reflMachine) ViaTB(t rapid.TB) {
	m.tr.log("A:ViaTB")
	if m.n == 0 {
		m.tr.log("E:skip")
		t.Skip("nothing to do")
	}
	m.n--
	m.tr.log("E:ok")
}
func (m *reflMachine) Check(t *rapid.T) {
	if m.n >= 2 {
		m.tr.log("I:fail")
		t.Fatalf("n reached %d", m.n)
	}
	m.tr.log("I:ok")
}
func (m *reflMachine) NotAnAction(x int) int { m.other++; return x }
func (m *reflMachine) AlsoNot()              { m.other++ }

func init() {
	Register(&Check{
		ID:    "C08",
		Level: "model_checking",
		Rule: "E1 bitdfs over T.Repeat for action sets of 1-3 actions from 9 kinds {noop, draws, skips before drawing, skips after drawing, Fatalf, Errorf, panic, Error() without message, Errorf followed by a rejected draw} (quick: multisets; thorough: all assignments) x 7 invariant variants " +
			"{absent, passing, Fatalf at call 1/2/3, Errorf at call 1/2} and a reflective StateMachineActions machine; bitstreams around all-zero, all-ones and 'continue/first action' bases within the depth/deviation bounds. " +
			"Oracle: regular-language monitor over the event trace: inv (act_ok inv | act_skipped)*, nothing after the first falsification, never two callbacks active, all-skip => 'can't find a valid action' failure after exactly 100 tries. " +
			"distinct = distinct (verdict, event trace) per unit; non-trivial = at least one action was attempted.",
		Assumptions: []string{"an action that draws and then skips makes the step invalid (generator-level meaning of SkipNow); the check does not demand a failure there"},
		Units:       c08Units,
		Budget:      map[string]time.Duration{"quick": 55 * time.Second, "thorough": 20 * time.Minute},
	})
}

// c08Machine: a state machine type for StateMachineActions with several methods of both accepted
// signatures, and public methods that are not actions.
type c08Machine struct{ tr *c08Trace }

func (m *c08Machine) act(name string, skip func() bool, t rapid.TB) {
	m.tr.log("A:" + name)
	if skip != nil && skip() {
		m.tr.log("E:skip")
		t.Skip("not now")
	}
	m.tr.log("E:ok")
}
func (m *c08Machine) A1(t *rapid.T) { m.act("A1", nil, t) }
func (m *c08Machine) A2(t *rapid.T) {
	m.act("A2", func() bool { return rapid.Bool().Draw(t, "skip") }, t)
}
func (m *c08Machine) B1(t rapid.TB)           { m.act("B1", nil, t) }
func (m *c08Machine) B2(t rapid.TB)           { m.act("B2", nil, t) }
func (m *c08Machine) B3(t rapid.TB)           { m.act("B3", nil, t) }
func (m *c08Machine) Check(t *rapid.T)        { m.tr.log("I:ok") }
func (m *c08Machine) NotAnAction(n int)       {}
func (m *c08Machine) AlsoNot(t *testing.T)    {}
func (m *c08Machine) NorThis() func(*rapid.T) { return nil }

var calls []string

type vmPtrFirst struct{ n int }

func (m *vmPtrFirst) Add(t *rapid.T)  { calls = append(calls, "Add") }
func (m vmPtrFirst) Get(t *rapid.T)   { calls = append(calls, "Get") }
func (m vmPtrFirst) Check(t *rapid.T) { calls = append(calls, "Check") }

type vmValFirst struct{ n int }

func (m *vmValFirst) Add(t *rapid.T)  { calls = append(calls, "Add") }
func (m vmValFirst) Get(t *rapid.T)   { calls = append(calls, "Get") }
func (m vmValFirst) Check(t *rapid.T) { calls = append(calls, "Check") }
