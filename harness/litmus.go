package harness

// Litmus programs with known answers for the E3 explorer and detector themselves: a harness that has
// never failed has not been shown to work. Run as unit "C14/explorer-litmus"; a wrong answer is a
// harness error (the machinery is broken), never a violation of rapid.

import (
	"fmt"

	"pgregory.net/rapid/verifrt/vatomic"
	"pgregory.net/rapid/verifrt/vsync"
)

type litmus struct {
	name       string
	body       func(out *[]int)
	wantRace   bool
	wantDead   bool
	wantValues map[int]bool // set of final observations that must all be seen (and no others)
	bound      int
}

func litmusPrograms() []litmus {
	return []litmus{
		{name: "unlocked counter: race and lost update", bound: 1, wantRace: true, wantValues: map[int]bool{1: true, 2: true},
			body: func(out *[]int) {
				x := new(int)
				var dummy vsync.Mutex
				inc := func() {
					dummy.Lock() // a scheduling point that orders nothing between the two threads' accesses
					dummy.Unlock()
					v := *vsync.R(x, "litmus:read")
					dummy.Lock()
					dummy.Unlock()
					*vsync.W(x, "litmus:write") = v + 1
				}
				h1, h2 := vsync.Go(inc), vsync.Go(inc)
				h1.Join()
				h2.Join()
				*out = append(*out, *x)
			}},
		{name: "locked counter: no race, no lost update", bound: 2, wantValues: map[int]bool{2: true},
			body: func(out *[]int) {
				x := new(int)
				var mu vsync.Mutex
				inc := func() {
					mu.Lock()
					*vsync.W(x, "litmus:write") = *vsync.R(x, "litmus:read") + 1
					mu.Unlock()
				}
				h1, h2 := vsync.Go(inc), vsync.Go(inc)
				h1.Join()
				h2.Join()
				*out = append(*out, *x)
			}},
		{name: "AB/BA lock order: deadlock", bound: 1, wantDead: true, wantValues: map[int]bool{0: true},
			body: func(out *[]int) {
				var a, b vsync.Mutex
				h1 := vsync.Go(func() { a.Lock(); b.Lock(); b.Unlock(); a.Unlock() })
				h2 := vsync.Go(func() { b.Lock(); a.Lock(); a.Unlock(); b.Unlock() })
				h1.Join()
				h2.Join()
				*out = append(*out, 0)
			}},
		{name: "recursive RLock with a pending writer: deadlock", bound: 2, wantDead: true, wantValues: map[int]bool{0: true},
			body: func(out *[]int) {
				var m vsync.RWMutex
				h1 := vsync.Go(func() { m.RLock(); m.RLock(); m.RUnlock(); m.RUnlock() })
				h2 := vsync.Go(func() { m.Lock(); m.Unlock() })
				h1.Join()
				h2.Join()
				*out = append(*out, 0)
			}},
		{name: "double-checked init without Once: race", bound: 1, wantRace: true, wantValues: map[int]bool{7: true},
			body: func(out *[]int) {
				p := new(*int)
				var dummy vatomic.Bool
				get := func() {
					dummy.Load()
					if *vsync.R(p, "litmus:check") == nil {
						v := 7
						*vsync.W(p, "litmus:assign") = &v
					}
				}
				h1, h2 := vsync.Go(get), vsync.Go(get)
				h1.Join()
				h2.Join()
				*out = append(*out, **p)
			}},
		{name: "init with Once: no race", bound: 2, wantValues: map[int]bool{7: true},
			body: func(out *[]int) {
				p := new(*int)
				var once vsync.Once
				get := func() {
					once.Do(func() { v := 7; *vsync.W(p, "litmus:assign") = &v })
					_ = **vsync.R(p, "litmus:use")
				}
				h1, h2 := vsync.Go(get), vsync.Go(get)
				h1.Join()
				h2.Join()
				*out = append(*out, **p)
			}},
		{name: "message passing through atomic.Bool: no race, both orders", bound: 2, wantValues: map[int]bool{0: true, 5: true},
			body: func(out *[]int) {
				data := new(int)
				var ready vatomic.Bool
				got := 0
				h1 := vsync.Go(func() { *vsync.W(data, "litmus:data") = 5; ready.Store(true) })
				h2 := vsync.Go(func() {
					if ready.Load() {
						got = *vsync.R(data, "litmus:data-read")
					}
				})
				h1.Join()
				h2.Join()
				*out = append(*out, got)
			}},
		{name: "plain map shared without sync: race", bound: 1, wantRace: true, wantValues: map[int]bool{2: true},
			body: func(out *[]int) {
				m := map[int]int{}
				var dummy vatomic.Bool
				h1 := vsync.Go(func() { dummy.Load(); vsync.WM(m, "litmus:map-write")[1] = 1 })
				h2 := vsync.Go(func() { dummy.Load(); vsync.WM(m, "litmus:map-write")[2] = 2 })
				h1.Join()
				h2.Join()
				*out = append(*out, len(m))
			}},
		{name: "sync.Map: no race", bound: 2, wantValues: map[int]bool{2: true},
			body: func(out *[]int) {
				var m vsync.Map
				h1 := vsync.Go(func() { m.Store(1, 1) })
				h2 := vsync.Go(func() { m.LoadOrStore(2, 2); m.Load(1) })
				h1.Join()
				h2.Join()
				n := 0
				m.Range(func(k, v any) bool { n++; return true })
				*out = append(*out, n)
			}},
	}
}

func litmusUnit() Unit {
	return Unit{Name: "C14/explorer-litmus (self-test of scheduler and detector)", Run: func(c *Ctx) {
		for _, l := range litmusPrograms() {
			d := &SchedDFS{Bound: l.bound, MaxSteps: 500, MaxExecs: 50000}
			seen := map[int]bool{}
			race, dead := false, false
			var out []int
			d.Explore(c, func() { out = nil }, func() { l.body(&out) }, func(ex *vsync.Exec, choices []int) {
				if len(ex.Races) > 0 {
					race = true
				}
				if ex.Deadlock != "" {
					dead = true
					return
				}
				for _, v := range out {
					seen[v] = true
				}
			})
			c.Outcome(fmt.Sprintf("%s race=%v deadlock=%v values=%v", l.name, race, dead, seen), true)
			problem := ""
			if race != l.wantRace {
				problem = fmt.Sprintf("race reported=%v, expected %v", race, l.wantRace)
			}
			if dead != l.wantDead {
				problem += fmt.Sprintf(" deadlock found=%v, expected %v", dead, l.wantDead)
			}
			for v := range l.wantValues {
				if !seen[v] && !(l.wantDead && len(seen) == 0) {
					problem += fmt.Sprintf(" outcome %d never observed", v)
				}
			}
			for v := range seen {
				if !l.wantValues[v] {
					problem += fmt.Sprintf(" unexpected outcome %d", v)
				}
			}
			if problem != "" {
				c.R.HarnessErr = fmt.Sprintf("explorer litmus %q gave the wrong answer: %s", l.name, problem)
				return
			}
			c.Count("litmus_programs_with_the_expected_answer", 1)
		}
	}}
}
