package harness

// Every draw width 1..64 of the buffer-backed stream: for the full-range unsigned generators the value drawn
// is, by construction, the low w bits of the second input word, where w is chosen by the first (bias) word. The
// explorer's own source finds a bias word for every width; the real buffer stream (through VerifRunBuf and through
// the MakeFuzz body) must then hand exactly those w bits to the property - including bit 63 of a 64-bit draw.

import (
	"fmt"

	"pgregory.net/rapid"
)

type widthProbe struct {
	bias, val uint64
	widths    []int
}

func (p *widthProbe) DrawBits(n int) uint64 {
	p.widths = append(p.widths, n)
	if len(p.widths) == 1 {
		return p.bias
	}
	return p.val
}
func (p *widthProbe) BeginGroup(string, bool) {}
func (p *widthProbe) EndGroup(bool)           {}

func c13WidthUnit() Unit {
	return Unit{Name: "C13/every-draw-width-of-the-buffer-stream", Run: func(c *Ctx) {
		type genT struct {
			name string
			draw func(t *rapid.T) uint64
		}
		gens := []genT{
			{"Uint64()", func(t *rapid.T) uint64 { return rapid.Uint64().Draw(t, "v") }},
			{"Uint()", func(t *rapid.T) uint64 { return uint64(rapid.Uint().Draw(t, "v")) }},
			{"Uintptr()", func(t *rapid.T) uint64 { return uint64(rapid.Uintptr().Draw(t, "v")) }},
			{"Uint64Range(0,MaxUint64)", func(t *rapid.T) uint64 { return rapid.Uint64Range(0, ^uint64(0)).Draw(t, "v") }},
			{"Uint64Min(0)", func(t *rapid.T) uint64 { return rapid.Uint64Min(0).Draw(t, "v") }},
		}
		tb := NewTB("C13widths")
		tb.Quiet = true
		for _, g := range gens {
			// width of the bias draw
			p0 := &widthProbe{}
			rapid.VerifRunSource(tb, p0, false, func(t *rapid.T) { g.draw(t) })
			if len(p0.widths) < 2 {
				c.Violate(Violation{Sig: "C13 draw-widths harness-unexpected-draw-sequence gen=" + g.name, Detail: fmt.Sprint(p0.widths)})
				continue
			}
			biasOf := map[int]uint64{}
			cands := append(AlphaLog(16)(p0.widths[0]), AlphaFull(64)(p0.widths[0])...)
			for _, b := range cands {
				p := &widthProbe{bias: b, val: 1}
				rapid.VerifRunSource(tb, p, false, func(t *rapid.T) { g.draw(t) })
				c.R.Evals++
				if len(p.widths) == 2 && p.widths[1] >= 1 && p.widths[1] <= 64 {
					if _, ok := biasOf[p.widths[1]]; !ok {
						biasOf[p.widths[1]] = b
					}
				}
			}
			c.Count("draw_widths_reached", int64(len(biasOf)))
			for _, w := range []int{1, 31, 32, 33, 62, 63, 64} {
				if _, ok := biasOf[w]; !ok {
					c.Violate(Violation{Sig: "C13 draw-widths harness-found-no-bias-word gen=" + g.name, Detail: fmt.Sprintf("no bias word makes %s draw %d bits (found %d widths)", g.name, w, len(biasOf))})
				}
			}
			for w, bias := range biasOf {
				mask := ^uint64(0)
				if w < 64 {
					mask = 1<<uint(w) - 1
				}
				for _, v := range []uint64{^uint64(0), 1 << uint(w-1), 1<<uint(w-1) | 1, 0xDEADBEEFCAFEF00D, 0xC123456789ABCDEF, 0x8000000000000001, 0x5555555555555555, 0xAAAAAAAAAAAAAAAA} {
					want := v & mask
					words := []uint64{bias, v, 1, 0}
					for _, how := range []string{"buffer", "fuzz"} {
						got, drew := uint64(0), false
						prop := func(t *rapid.T) { got = g.draw(t); drew = true }
						if how == "buffer" {
							rapid.VerifRunBuf(tb, words, false, prop)
						} else {
							Guard(func() { rapid.VerifCheckFuzz(tb, prop, wordsToBytes(words)) })
						}
						c.R.Evals++
						c.R.States++
						c.Outcome(fmt.Sprintf("%s w=%d top=%v", g.name, w, want>>63), w == 64)
						if !drew || got != want {
							c.Violate(Violation{Sig: fmt.Sprintf("C13 draw-of-%d-bits-not-the-input-bits gen=%s", w, g.name),
								Detail: fmt.Sprintf("%s on the input words %#x (%s): the bias word selects a %d-bit draw, the property must see %#x, it saw %#x (drew=%v)", g.name, words, how, w, want, got, drew),
								Replay: map[string]any{"engine": "buffer", "gen": g.name, "words": words, "how": how}})
						}
					}
				}
			}
		}
	}}
}

// c13LongInputUnit: an input of n words is used in full - n one-bit draws see the low bit of every word, in order,
// for n around every power of two up to 2^18 (no hidden cap on the length of a fuzz input).
func c13LongInputUnit() Unit {
	return Unit{Name: "C13/long-inputs-are-used-in-full", Run: func(c *Ctx) {
		var sizes []int
		for k := 6; k <= 18; k++ {
			sizes = append(sizes, 1<<uint(k)-1, 1<<uint(k), 1<<uint(k)+1)
		}
		sizes = append(sizes, 100000, 300000)
		for _, n := range sizes {
			words := make([]uint64, n)
			for i := range words {
				words[i] = uint64(i*i+i/7) | 0xF0
			}
			for _, extra := range []int{0, 3, 64} {
				input := append(wordsToBytes(words), make([]byte, extra)...)
				tb := NewTB("C13long")
				tb.Quiet = true
				drawn, wrong := 0, -1
				esc := Guard(func() {
					rapid.VerifCheckFuzz(tb, func(t *rapid.T) {
						for i := 0; i < n; i++ {
							b := rapid.Bool().Draw(t, "b")
							if b != (words[i]&1 == 1) && wrong < 0 {
								wrong = i
							}
							drawn++
						}
					}, input)
				})
				c.R.Evals++
				c.R.States++
				c.R.Transitions += int64(drawn)
				c.Outcome(fmt.Sprintf("n=%d extra=%d drawn=%d skipped=%v failed=%v", n, extra, drawn, tb.IsSkip, tb.IsFail), true)
				if esc != nil || drawn != n || wrong >= 0 || tb.IsSkip || tb.IsFail {
					c.Violate(Violation{Sig: "C13 long-input-not-used-in-full", Detail: fmt.Sprintf("input of %d words (+%d bytes): %d of %d one-bit draws succeeded, first wrong value at %d, skipped=%v failed=%v escaped=%v", n, extra, drawn, n, wrong, tb.IsSkip, tb.IsFail, esc),
						Replay: map[string]any{"engine": "fuzz", "words": n, "extra_bytes": extra}})
					return
				}
			}
		}
	}}
}
