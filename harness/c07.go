package harness

// C07 - the printed seed reproduces the failure; a fixed seed fixes the whole run.
// E2: base seeds x checks x every index of the first falsified case (with skipped cases before it);
// run 1 with -rapid.seed=s; run 2 with the seed printed by run 1; run 1 again for determinism.

import (
	"fmt"
	"os"
	"os/exec"
	"regexp"
	"strconv"
	"strings"
	"time"
)

func tbTranscript(tb *FakeTB) string {
	var b strings.Builder
	for _, e := range tb.Events {
		b.WriteString(e.Kind)
		b.WriteByte(':')
		b.WriteString(e.Text)
		b.WriteByte('\n')
	}
	return b.String()
}

func invTranscript(invs []*Invocation) string {
	var b strings.Builder
	for _, inv := range invs {
		fmt.Fprintf(&b, "%s/%v;", inv.Draws, inv.Signalled)
	}
	return b.String()
}

var rePidInName = regexp.MustCompile(`-\d+\.fail`)

var reCommentStamp = regexp.MustCompile(`(?m)^# \d{4}/\d\d/\d\d \d\d:\d\d:\d\d\.\d+ `)

// filesTranscript renders the fail files with the wall-clock stamps that package log puts
// into the comment lines masked (the statement allows "timestamps in comments" to differ).
func filesTranscript(m map[string]string) string {
	var b strings.Builder
	for _, k := range sortedKeys(m) {
		b.WriteString(k)
		b.WriteByte('=')
		b.WriteString(reCommentStamp.ReplaceAllString(m[k], "# <stamp> "))
		b.WriteByte('\n')
	}
	return b.String()
}

func c07Units(tier string, seed int64) []Unit {
	quick := tier != "thorough"
	var units []Unit
	nseeds := 12
	if !quick {
		nseeds = 96
	}
	var seeds []uint64
	for i := 1; i <= nseeds; i++ {
		seeds = append(seeds, uint64(seed)*1009+uint64(i))
	}
	seeds = append(seeds, ^uint64(0), ^uint64(0)-1, 1<<63, 1<<63-1, 1<<32, 0xdeadbeefcafebabe)
	progs := c07Progs()
	alpha := func(string) []Beh {
		return []Beh{BPass, BSkip, BFatalA, BPanicStr, BErrorf, BCleanupErrorfSkip, BCleanupErrorf}
	}
	for pi, mk := range progs {
		for _, n := range []int{1, 5, 20} {
			for _, sd := range seeds {
				pi, mk, n, sd := pi, mk, n, sd
				units = append(units, Unit{Name: fmt.Sprintf("C07/prog=%d/checks=%d/seed=%d", pi, n, sd), Run: func(c *Ctx) {
					prog := mk()
					cfg := Config{Checks: n, Seed: sd, ShrinkMS: -1, NoFailFile: false, Name: "TestC07"}
					if pi == 4 {
						cfg.ShrinkMS = 1500 // state-machine minimization is slow: a fixed budget on the virtual clock is deterministic too
					}
					d := &LazyDFS{Prog: prog, Cfg: cfg, Alphabet: alpha, P: n + 3, MaxDev: 2, OnlyUpToFirstFalsified: true, PreRun: CleanFailFiles}
					if quick {
						if n == 20 {
							d.MaxDev = 1
						}
						d.MaxRuns = 1500
					} else {
						d.MaxDev = 3
						if n == 20 {
							d.MaxDev = 2
						}
						d.MaxRuns = 40000
					}
					c.R.Bounds = fmt.Sprintf("deviations<=%d over first %d inputs", d.MaxDev, d.P)
					d.Explore(c, func(log *RunLog, assign []KV, devs int) {
						env := log.Env
						v := log.Verdict()
						full := append([]KV(nil), env.Seen...)
						replay := map[string]any{"program": prog.Name, "assign": assign, "config": cfg.String()}
						viol := func(clause, detail string) {
							c.Violate(Violation{Sig: "C07 " + clause, Detail: fmt.Sprintf("%s\nprogram %s %s\nTB: %s %q\ninvocations: %s", detail, prog.Name, cfg, v.Class, trunc(v.ErrText, 300), SummarizeInvs(env.Invs, 12)), Replay: replay, Devs: devs})
						}
						// determinism of the whole run (1 in 4 runs, and always for failing runs)
						if v.Class != "ok" || c.R.Evals%4 == 0 {
							CleanFailFiles()
							envB := NewEnv(full, prog.Base)
							logB := RunCheck(prog, envB, cfg)
							c.R.Evals++
							if invTranscript(envB.Invs) != invTranscript(env.Invs) {
								viol("rerun-differs what=test-cases", "same -rapid.seed, different sequence of test cases:\n"+trunc(invTranscript(env.Invs), 400)+"\nvs\n"+trunc(invTranscript(envB.Invs), 400))
							} else if tbTranscript(logB.TB) != tbTranscript(log.TB) {
								viol("rerun-differs what=report", "same -rapid.seed, different report:\n"+trunc(tbTranscript(log.TB), 600)+"\nvs\n"+trunc(tbTranscript(logB.TB), 600))
							} else if filesTranscript(logB.Files) != filesTranscript(log.Files) {
								viol("rerun-differs what=failfile", "same -rapid.seed, different fail file:\n"+trunc(filesTranscript(log.Files), 400)+"\nvs\n"+trunc(filesTranscript(logB.Files), 400))
							}
						}
						if v.Class == "flaky" {
							viol("flaky-report-seed-cannot-reproduce", "the report says 'flaky test' for a deterministic property: the seed it prints can not reproduce a failure")
							return
						}
						if v.Class != "failed" && v.Class != "panic" {
							c.Outcome(v.Class, false)
							return
						}
						blamed := env.Blamed()
						if blamed == nil {
							viol("no-blamed-case", "failure reported but no reproduced random test case found")
							return
						}
						c.Outcome(fmt.Sprintf("%s idx=%d after=%d", v.Class, blamed.Idx, v.After), true)
						if v.SeedStr == "" {
							// the failing case's own seed can be 0 when base seed + index wraps around 2^64;
							// rapid then prints no seed (0 would mean "random"), which the statement permits
							if n := len(env.Seeds); n > 0 && env.Seeds[n-1].Seed == 0 {
								c.Count("failing_seed_wrapped_to_zero", 1)
								return
							}
							viol("no-seed-printed", "the failure message does not name a seed")
							return
						}
						ps, err := strconv.ParseUint(v.SeedStr, 10, 64)
						if err != nil {
							viol("bad-seed-printed", "unparsable seed "+v.SeedStr)
							return
						}
						// history fail -> rerun: the next run (another base seed) finds the failure through the fail
						// file; if its report names a seed as well, that seed has to keep the same promise
						if len(log.Files) > 0 {
							cfgF := cfg
							cfgF.Seed = sd ^ 0x5555
							envF := NewEnv(full, prog.Base)
							logF := RunCheck(prog, envF, cfgF)
							c.R.Evals++
							if vF := logF.Verdict(); (vF.Class == "failed" || vF.Class == "panic") && vF.After == 0 && vF.SeedStr != "" && len(envF.Invs) > 0 {
								psF, err := strconv.ParseUint(vF.SeedStr, 10, 64)
								CleanFailFiles()
								cfgG := cfg
								cfgG.Seed, cfgG.NoFailFile = psF, true
								envG := NewEnv(full, prog.Base)
								RunCheck(prog, envG, cfgG)
								c.R.Evals++
								if err != nil || len(envG.Invs) == 0 || envG.Invs[0].Draws != envF.Invs[0].Draws {
									got := "<none>"
									if len(envG.Invs) > 0 {
										got = envG.Invs[0].Draws
									}
									viol("seed-printed-for-fail-file-failure-does-not-reproduce", fmt.Sprintf("the rerun failed through the saved fail file (case drew %s) and printed -rapid.seed=%s; with that seed the first test case drew %s", envF.Invs[0].Draws, vF.SeedStr, got))
								}
							}
						}
						CleanFailFiles()
						cfg2 := cfg
						cfg2.Seed = ps
						cfg2.NoFailFile = true
						env2 := NewEnv(full, prog.Base)
						log2 := RunCheck(prog, env2, cfg2)
						c.R.Evals++
						v2 := log2.Verdict()
						if len(env2.Invs) == 0 || env2.Invs[0].Draws != blamed.Draws {
							got := "<none>"
							if len(env2.Invs) > 0 {
								got = env2.Invs[0].Draws
							}
							viol("printed-seed-does-not-reproduce", fmt.Sprintf("failing case #%d drew %s; with -rapid.seed=%d the first test case drew %s", blamed.Idx, blamed.Draws, ps, got))
							return
						}
						if v2.Class != v.Class || v2.After != 0 {
							viol("printed-seed-not-after-0", fmt.Sprintf("with -rapid.seed=%d: %s after %d tests (want %s after 0)", ps, v2.Class, v2.After, v.Class))
						}
						// run 2 was made without fail files: its report names the seed only, and that must be the same seed again
						if (v2.Class == "failed" || v2.Class == "panic") && v2.After == 0 && v2.SeedStr != v.SeedStr {
							viol("seed-printed-without-failfile-differs", fmt.Sprintf("run 1 printed -rapid.seed=%s; run 2 (-rapid.nofailfile, -rapid.seed=%d, fails after 0 tests) printed -rapid.seed=%s", v.SeedStr, ps, v2.SeedStr))
						}
						if ps == 0 {
							viol("seed-zero-printed", "seed 0 means 'random' and can not reproduce anything")
						}
					})
				}})
			}
		}
	}
	// the same fixed seed in two other processes: the whole run is identical across processes too
	for pi := range progs {
		for _, sd := range []uint64{uint64(seed)*1009 + 5, 0xdeadbeefcafebabe} {
			pi, sd := pi, sd
			units = append(units, Unit{Name: fmt.Sprintf("C07/cross-process-determinism/prog=%d/seed=%d", pi, sd), Run: func(c *Ctx) {
				self, _ := os.Executable()
				want := SeedRunTranscript(pi, sd)
				for k := 0; k < 2; k++ {
					out, err := exec.Command(self, "seedrun", fmt.Sprint(pi), fmt.Sprint(sd)).Output()
					c.R.Evals++
					c.R.States++
					c.R.Transitions++
					if err != nil {
						c.R.HarnessErr = "seedrun subprocess: " + err.Error()
						return
					}
					c.Outcome(fmt.Sprintf("prog %d seed %d %x", pi, sd, hashStr(string(out))), true)
					if string(out) != want {
						c.Violate(Violation{Sig: "C07 rerun-differs what=other-process", Detail: fmt.Sprintf("program %d, -rapid.seed=%d: another process produced a different run:\n%s\nvs\n%s", pi, sd, trunc(want, 500), trunc(string(out), 500)),
							Replay: map[string]any{"program": pi, "seed": sd}})
					}
				}
			}})
		}
	}
	// a fixed seed fixes the run also when a stale fail file is lying around: run A fails and saves; the bug is "fixed"
	// (the threshold moves, the stored case now passes); run B with -rapid.seed=s must generate exactly the test cases
	// that the same seed generates in an empty directory, and a failure it reports must print a seed that reproduces
	units = append(units, Unit{Name: "C07/fixed-seed-with-a-stale-fail-file", Run: func(c *Ctx) {
		for _, seedA := range []uint64{3, 1111} {
			for _, seedB := range []uint64{5, 424242, 1<<63 + 9} {
				for _, fixedT := range []int16{30000, 2000} { // 30000: run B passes (int16 values rarely reach it in 10 cases); 2000: run B usually fails
					CleanFailFiles()
					progA := progThreshold(100)
					logA := RunCheck(progA, NewEnv(nil, progA.Base), Config{Checks: 30, Seed: seedA, ShrinkMS: -1, Name: "TestC07stale"})
					if len(logA.Files) == 0 {
						continue
					}
					progB := progThreshold(fixedT)
					envB := NewEnv(nil, progB.Base)
					logB := RunCheck(progB, envB, Config{Checks: 10, Seed: seedB, ShrinkMS: -1, NoFailFile: true, Name: "TestC07stale"})
					CleanFailFiles()
					envC := NewEnv(nil, progB.Base)
					logC := RunCheck(progB, envC, Config{Checks: 10, Seed: seedB, ShrinkMS: -1, NoFailFile: true, Name: "TestC07stale"})
					c.R.Evals += 3
					c.R.States++
					c.R.Transitions += int64(len(envB.Invs) + len(envC.Invs))
					draws := func(e *Env) (out []string) {
						for _, inv := range e.Invs {
							out = append(out, inv.Draws)
						}
						return
					}
					b, cc := draws(envB), draws(envC)
					if len(b) > 0 {
						b = b[1:] // the replay of the stored case comes first
					}
					vB, vC := logB.Verdict(), logC.Verdict()
					c.Outcome(fmt.Sprintf("stale file: B=%s C=%s cases=%d", vB.Class, vC.Class, len(cc)), true)
					if strings.Join(b, ";") != strings.Join(cc, ";") || vB.Class != vC.Class || firstLine(vB.ErrText) != firstLine(vC.ErrText) {
						c.Violate(Violation{Sig: "C07 fixed-seed-run-differs-with-a-stale-fail-file",
							Detail: fmt.Sprintf("-rapid.seed=%d with a stale fail file (of seed %d) in the directory: %s %q, test cases %v\nthe same seed in an empty directory: %s %q, test cases %v", seedB, seedA, vB.Class, firstLine(vB.ErrText), b, vC.Class, firstLine(vC.ErrText), cc),
							Replay: map[string]any{"engine": "lazyprop", "seedA": seedA, "seedB": seedB, "threshold": fixedT}})
					}
				}
			}
		}
	}})
	return units
}

// c07Progs is the program list shared with the seedrun subprocess.
func c07Progs() []func() *LazyProgram {
	return []func() *LazyProgram{
		func() *LazyProgram { return progUniqueCtx("body", BPass) },
		func() *LazyProgram { return progThreshold(100) },
		func() *LazyProgram { return progTwoSites() },
		func() *LazyProgram { return rejectionProgs()[0] },
		func() *LazyProgram { return progCaseCollidingActions() },
	}
}

// SeedRunTranscript runs one seeded failing-and-minimizing Check and renders everything observable.
func SeedRunTranscript(pi int, sd uint64) string {
	prog := c07Progs()[pi]()
	base := prog.Base
	prog.Base = func(ctx, d string) Beh {
		if b := base(ctx, d); b != BPass {
			return b
		}
		if hashStr(d)%7 == 0 {
			return BFatalB
		}
		return BPass
	}
	CleanFailFiles()
	env := NewEnv(nil, prog.Base)
	shrinkMS := -1
	if pi == 4 {
		shrinkMS = 1500
	}
	log := RunCheck(prog, env, Config{Checks: 30, Seed: sd, ShrinkMS: shrinkMS, Name: "TestC07x"})
	t := invTranscript(env.Invs) + "\n" + tbTranscript(log.TB) + "\n" + filesTranscript(log.Files)
	CleanFailFiles()
	// the fail file's name carries the process id by design
	return rePidInName.ReplaceAllString(t, "-<pid>.fail")
}

// SeedRunMain is `vcheck seedrun <prog> <seed>`.
func SeedRunMain(a, b string) {
	pi, _ := strconv.Atoi(a)
	sd, _ := strconv.ParseUint(b, 10, 64)
	d, _ := os.MkdirTemp("", "seedrun-")
	os.Chdir(d)
	defer os.RemoveAll(d)
	fmt.Print(SeedRunTranscript(pi, sd))
}

func init() {
	Register(&Check{
		ID:    "C07",
		Level: "model_checking",
		Rule: "E2 lazyprop over 5 base programs (incl. a state machine whose action names differ only by case) x checks {1,5,20} x base seeds (incl. seeds near 2^64) x every index of the first falsified test case with 0-2 skipped cases before it (deviation-bounded DFS); " +
			"run 2 uses the seed printed by run 1 and must draw the failing case's values first and fail after 0 tests; failing runs (and 1 in 4 others) are executed twice and must agree in test cases, report and fail file; 8 seeded runs are repeated in two other processes each and must agree byte for byte. " +
			"distinct = distinct (class, index of failing case, passed-before count) per unit; non-trivial = a failure was reported and reproduced.",
		Assumptions: []string{"virtual clock (1 ms per property invocation) makes reported durations and fail-file names deterministic"},
		Units:       c07Units,
		Budget:      map[string]time.Duration{"quick": 50 * time.Second, "thorough": 15 * time.Minute},
	})
}

func firstLine(t string) string {
	if i := strings.Index(t, "\n"); i >= 0 {
		return t[:i]
	}
	return t
}
