package harness

import (
	"encoding/binary"
	"fmt"
	"strings"

	"pgregory.net/rapid"
)

// RunBody runs the program's property function once on the given words, under the given behaviours.
func RunBody(p *LazyProgram, assign []KV, words []uint64) (rapid.VerifResult, *Invocation) {
	env := NewEnv(assign, p.Base)
	tb := NewTB("replay")
	tb.Quiet = true
	res := rapid.VerifRunBuf(tb, words, false, func(t *rapid.T) {
		inv := env.Begin()
		p.Body(t, env)
		inv.Returned = true
	})
	if len(env.Invs) == 0 {
		return res, &Invocation{}
	}
	return res, env.Invs[0]
}

// RunBodySeed: same on the PRNG stream of a seed.
func RunBodySeed(p *LazyProgram, assign []KV, seed uint64) (rapid.VerifResult, *Invocation) {
	env := NewEnv(assign, p.Base)
	tb := NewTB("replay")
	tb.Quiet = true
	res := rapid.VerifRunSeed(tb, seed, false, func(t *rapid.T) {
		inv := env.Begin()
		p.Body(t, env)
		inv.Returned = true
	})
	if len(env.Invs) == 0 {
		return res, &Invocation{}
	}
	return res, env.Invs[0]
}

// RunBodyFuzz: same through the body of MakeFuzz.
func RunBodyFuzz(p *LazyProgram, assign []KV, input []byte) (*FakeTB, *Invocation, any) {
	env := NewEnv(assign, p.Base)
	tb := NewTB("fuzz")
	esc := Guard(func() {
		rapid.VerifCheckFuzz(tb, func(t *rapid.T) {
			inv := env.Begin()
			p.Body(t, env)
			inv.Returned = true
		}, input)
	})
	if len(env.Invs) == 0 {
		return tb, &Invocation{}, esc
	}
	return tb, env.Invs[0], esc
}

func wordsToBytes(ws []uint64) []byte {
	b := make([]byte, 8*len(ws))
	for i, w := range ws {
		binary.LittleEndian.PutUint64(b[8*i:], w)
	}
	return b
}

// effectiveSignal returns the decision whose failure ends up being the test case's error,
// following Go's and rapid's rules: an immediate failure ends the callback it happens in (non-fatal
// ones when that callback returns); cleanups registered on the property's T run afterwards, last
// registered first - a panicking/fatal cleanup replaces the error in flight, a non-fatal one only
// counts if there was none.
func effectiveSignal(inv *Invocation) (Decision, bool) {
	var eff Decision
	have := false
	var outer []Decision
loop:
	for _, d := range inv.Decisions {
		switch d.Beh {
		case BPass, BCleanupPass:
		case BSkip, BSkipNow, BSkipf:
			if d.Ctx == "body" {
				break loop
			}
		case BCleanupErrorf, BCleanupCleanupErrorf, BCleanupPanic, BCleanupFatal:
			if strings.HasPrefix(d.Ctx, "custom") {
				eff, have = d, true
				break loop
			}
			outer = append(outer, d)
		case BCleanupErrorfSkip:
			eff, have = d, true
			break loop
		case BCleanupSkip:
			if d.Ctx == "body" {
				// the case ends as skipped once the cleanup runs; nothing later in the body exists
			}
		default:
			eff, have = d, true
			break loop
		}
	}
	for i := len(outer) - 1; i >= 0; i-- {
		d := outer[i]
		switch d.Beh {
		case BCleanupPanic, BCleanupFatal:
			eff, have = d, true
		default:
			if !have {
				eff, have = d, true
			}
		}
	}
	return eff, have
}

// siteID: the failure site of an invocation in the sense of C05: context and kind of the effective
// fatal signal; a test case failed only through non-fatal calls is the single site "nonfatal".
func siteID(inv *Invocation) string {
	if inv == nil {
		return "<none>"
	}
	d, ok := effectiveSignal(inv)
	if !ok {
		return ""
	}
	if d.Beh.Site() == "nonfatal" {
		return "nonfatal"
	}
	return d.Ctx + ":" + d.Beh.String()
}

// firstSignal returns the effective falsifying decision of an invocation.
func firstSignal(inv *Invocation) (Decision, bool) { return effectiveSignal(inv) }

func drawsOfKey(key string) string {
	if i := strings.IndexByte(key, '|'); i >= 0 {
		return key[i+1:]
	}
	return key
}

// loggedDraws extracts "label: value" from the "[rapid] draw label: value" lines among the given log lines.
func loggedDraws(lines []string) []string {
	var out []string
	for _, l := range lines {
		for _, ln := range strings.Split(l, "\n") {
			if m := reDrawLog.FindStringSubmatch(ln); m != nil {
				if m[1] == "action" {
					continue
				}
				out = append(out, m[1]+": "+m[2])
			}
		}
	}
	return out
}

// adoptedChain returns the buffers the shrinker adopted during the run, in order
// (its second, recording run of an accepted candidate).
func adoptedChain(env *Env) [][]uint64 {
	var out [][]uint64
	for i, b := range env.Bufs {
		if env.BufPersist[i] {
			out = append(out, b)
		}
	}
	return out
}

func fmtWords(ws []uint64) string {
	var parts []string
	for _, w := range ws {
		parts = append(parts, fmt.Sprintf("%#x", w))
	}
	return "[" + strings.Join(parts, " ") + "]"
}

func equalWords(a, b []uint64) bool {
	if len(a) != len(b) {
		return false
	}
	for i := range a {
		if a[i] != b[i] {
			return false
		}
	}
	return true
}
