package harness

// Free-running conformance pass for E3 (secondary evidence, decides nothing by itself): the same
// scenario shapes run on real goroutines and the real package sync (a build WITHOUT rules r3/r4)
// under Go's race detector. A cooperative scheduler's hand-offs are happens-before edges that blind
// the detector, so this pass must be a separate, free-running binary. Every race the Go detector
// reports here is one the explorer should have reported: on a tree where the explorer is silent,
// any "DATA RACE" is a conformance failure of the shim (or a race outside its model).

import (
	"bytes"
	"fmt"
	"os"
	"os/exec"
	"regexp"
	"sort"
	"strings"
	"sync"

	"pgregory.net/rapid"
)

func c14Plain(t *rapid.T, op string, thread int) {
	switch op {
	case "Errorf":
		t.Errorf("failure from thread %d", thread)
	case "Error":
		t.Error("failure from thread", thread)
	case "Fail":
		t.Fail()
	case "Failed":
		_ = t.Failed()
	case "Log":
		t.Logf("log from thread %d", thread)
	case "Name":
		_ = t.Name()
	case "Helper":
		t.Helper()
	case "Context":
		_ = t.Context().Err()
	case "Cleanup":
		t.Cleanup(func() {})
	case "CleanupSpawn":
		t.Cleanup(func() {
			var wg sync.WaitGroup
			wg.Add(2)
			go func() { defer wg.Done(); t.Cleanup(func() {}) }()
			go func() { defer wg.Done(); _ = t.Context() }()
			wg.Wait()
		})
	case "CleanupErrorfSpawn":
		t.Cleanup(func() {
			var wg sync.WaitGroup
			wg.Add(2)
			go func() { defer wg.Done(); t.Errorf("failure from a goroutine started by a cleanup") }()
			go func() { defer wg.Done(); _ = t.Failed() }()
			wg.Wait()
		})
	case "Repeat":
		t.Repeat(map[string]func(*rapid.T){"noop": func(*rapid.T) {}})
	case "Draw":
		rapid.Bool().Draw(t, "b")
	}
}

// FreeRunMain runs the scenario bodies of C14 / C15 n times each on real goroutines.
func FreeRunMain(id string, n int) {
	switch id {
	case "C14":
		for _, sc := range c14Scenarios(false) {
			for i := 0; i < n; i++ {
				tb := NewTB("C14")
				tb.Quiet = !sc.verbose
				rapid.VerifRunBuf(tb, []uint64{1, 0, 1, 1, 0, 0, 1, 0}, sc.verbose, func(t *rapid.T) {
					var wg sync.WaitGroup
					if sc.late {
						t.Cleanup(func() { wg.Wait() })
					}
					for ti, ops := range sc.threads {
						ti, ops := ti, ops
						wg.Add(1)
						go func() {
							defer wg.Done()
							for _, op := range ops {
								c14Plain(t, op, ti+1)
							}
						}()
					}
					if !sc.late {
						defer wg.Wait()
					}
					for _, op := range sc.mainOps {
						c14Plain(t, op, 0)
					}
				})
			}
		}
	case "C15":
		tbq := NewTB("C15")
		tbq.Quiet = true
		for _, p := range c15Progs(false) {
			var words []uint64
			for s := uint64(1); s < 200; s++ {
				rec := &Rec{}
				res := rapid.VerifRunSeed(tbq, s, false, c03Prop(p.New(), rec))
				if res.Kind == rapid.VerifOK {
					words = res.Data
					break
				}
			}
			for i := 0; i < n; i++ {
				rapid.VerifResetCaches()
				shared := p.New()
				g := rapid.Custom(func(t *rapid.T) int { rec := &Rec{}; shared(t, rec); return len(rec.Draws) })
				var wg sync.WaitGroup
				for k := 0; k < 4; k++ {
					k := k
					wg.Add(1)
					go func() {
						defer wg.Done()
						tb := NewTB("C15")
						tb.Quiet = true
						switch k {
						case 0, 1:
							rec := &Rec{}
							rapid.VerifRunBuf(tb, words, false, c03Prop(shared, rec))
						case 2:
							_ = g.String()
							rapid.VerifRunBuf(tb, words, false, func(t *rapid.T) { g.Draw(t, "direct") })
						case 3:
							sub := rapid.SliceOfN(g, 1, 2)
							rapid.VerifRunBuf(tb, append([]uint64{^uint64(0)}, words...), false, func(t *rapid.T) { sub.Draw(t, "sub") })
						}
					}()
				}
				wg.Wait()
			}
		}
	}
	fmt.Println("freerun done")
}

var reRaceFrame = regexp.MustCompile(`(?m)^\s+pgregory\.net/rapid\.[^\n]*\n\s+\S*/([a-z_0-9]+\.go):(\d+)`)

// freeRunUnit executes the prebuilt -race binary (VERIF_RACE_BIN, built by checks/run.sh without r3/r4).
func freeRunUnit(id string, n int) Unit {
	return Unit{Name: id + "/free-running -race conformance pass", Run: func(c *Ctx) {
		bin := os.Getenv("VERIF_RACE_BIN")
		if bin == "" {
			c.R.HarnessErr = "VERIF_RACE_BIN not set: checks/run.sh builds the free-running -race binary for C14/C15"
			return
		}
		cmd := exec.Command(bin, "freerun", id, fmt.Sprint(n))
		cmd.Env = append(os.Environ(), "GORACE=halt_on_error=0", "GOMAXPROCS=8")
		var out bytes.Buffer
		cmd.Stdout = &out
		cmd.Stderr = &out
		err := cmd.Run()
		s := out.String()
		c.R.Evals += int64(n)
		c.R.States++
		c.R.Transitions += int64(n)
		if !strings.Contains(s, "freerun done") {
			c.R.HarnessErr = fmt.Sprintf("free-running binary did not finish: %v: %s", err, trunc(s, 600))
			return
		}
		reports := strings.Split(s, "WARNING: DATA RACE")[1:]
		seen := map[string]bool{}
		for _, r := range reports {
			var frames []string
			for _, m := range reRaceFrame.FindAllStringSubmatch(r, -1) {
				frames = append(frames, m[1]+":"+m[2])
				if len(frames) == 2 {
					break
				}
			}
			sort.Strings(frames)
			key := strings.Join(frames, " <-> ")
			if seen[key] {
				continue
			}
			seen[key] = true
			c.Violate(Violation{Sig: id + " go-race-detector " + key, Detail: "free-running pass on real goroutines and the real package sync: Go's race detector reports\n" + trunc(r, 1500),
				Replay: map[string]any{"engine": "freerun", "id": id, "runs": n}})
		}
		c.Outcome(fmt.Sprintf("%d race reports", len(reports)), true)
		c.Count("free_running_runs_under_go_race_detector", int64(n))
	}}
}
