package harness

// C11 - test cases are isolated: one case cannot change the outcome of another.
// E2: every sequence over {Errorf, Skip, Errorf;Skip, cleanup-Errorf, cleanup-panic, pass, Fatalf}
// of length <= 3 (quick) / 4 (thorough) for the first test cases of a run, followed by passes.

import (
	"fmt"
	"pgregory.net/rapid"
	"strings"
	"time"
)

var c11Alpha = []Beh{BPass, BErrorf, BSkip, BErrorfSkip, BCleanupErrorf, BCleanupPanic, BFatalA, BCleanupPass, BCleanupErrorfSkip, BCleanupSkip, BErrorfReject, BCleanupErrorfCleanupSkip}

func c11Units(tier string, seed int64) []Unit {
	quick := tier != "thorough"
	var units []Unit
	L := 3
	seeds := []uint64{uint64(seed)*131 + 5, uint64(seed)*131 + 77777}
	if !quick {
		L = 4
		seeds = append(seeds, uint64(seed)*131+9, uint64(seed)*131+31337)
	}
	for _, n := range []int{5, 20} {
		for _, sd := range seeds {
			// shard by the behaviour of the first test case
			for _, first := range c11Alpha {
				n, sd, first := n, sd, first
				units = append(units, Unit{Name: fmt.Sprintf("C11/checks=%d/seed=%d/first=%s", n, sd, first), Run: func(c *Ctx) {
					prog := progUniqueCtx("body", BPass)
					cfg := Config{Checks: n, Seed: sd, ShrinkMS: 3, NoFailFile: true, Name: "TestC11"}
					// learn the first key with a dry run
					env0 := NewEnv(nil, prog.Base)
					RunCheck(prog, env0, cfg)
					if len(env0.Seen) == 0 {
						c.R.HarnessErr = "dry run saw no input"
						return
					}
					prog2 := *prog
					k0 := env0.Seen[0].Key
					prog2.Base = func(ctx, d string) Beh {
						if ctx+"|"+d == k0 {
							return first
						}
						return BPass
					}
					d := &LazyDFS{Prog: &prog2, Cfg: cfg, Alphabet: func(string) []Beh { return c11Alpha }, P: L, MaxDev: L - 1, OnlyUpToFirstFalsified: false}
					c.R.Bounds = fmt.Sprintf("all behaviour sequences of length %d over %d behaviours for the first test cases", L, len(c11Alpha))
					d.Explore(c, func(log *RunLog, assign []KV, devs int) {
						env := log.Env
						v := log.Verdict()
						var seq []string
						for i := 0; i < len(env.Seen) && i < L; i++ {
							seq = append(seq, env.Seen[i].Beh.String())
						}
						first := env.FirstFalsified()
						blamed := env.Blamed()
						c.Outcome(fmt.Sprintf("%s %v blamed=%v", v.Class, seq, blamed != nil), first != nil)
						replay := map[string]any{"program": prog.Name, "assign": env.Seen[:min(len(env.Seen), L)], "config": cfg.String()}
						viol := func(clause, detail string) {
							c.Violate(Violation{Sig: "C11 " + clause, Detail: fmt.Sprintf("%s\nfirst cases: %v\nTB: %s %q\ninvocations: %s", detail, seq, v.Class, trunc(v.ErrText, 300), SummarizeInvs(env.Invs, 12)), Replay: replay, Devs: devs})
						}
						if log.Escaped != nil {
							viol("escaped-panic", fmt.Sprintf("Check let a panic escape: %v", log.Escaped))
							return
						}
						if v.Class == "flaky" {
							// which pattern caused it?
							cause := "other"
							for _, inv := range env.Invs {
								if inv.Falsified() {
									cause = inv.Signalled[0].String()
									break
								}
							}
							viol("flaky-reported cause="+cause, "Check called a deterministic property flaky")
							return
						}
						if first == nil {
							if log.TB.IsFail && v.Class != "only-generated" {
								viol("failed-without-falsification", "no test case signalled a failure but the test failed")
							}
							return
						}
						if !log.TB.IsFail {
							viol("falsification-lost kind="+first.Signalled[0].String(), fmt.Sprintf("test case #%d signalled %v but the test passed", first.Idx, first.Signalled))
							return
						}
						if blamed == nil {
							viol("no-blamed-case", "the test failed but no random test case was reproduced")
							return
						}
						if !blamed.Falsified() {
							viol("innocent-case-blamed by="+first.Signalled[0].String(), fmt.Sprintf("Check treats test case #%d (draws %s) as falsifying, but nothing failed in it; the signal was raised in #%d", blamed.Idx, blamed.Draws, first.Idx))
							return
						}
						if blamed.Idx != first.Idx {
							viol("later-case-blamed", fmt.Sprintf("test case #%d signalled first but #%d was treated as the falsifying one", first.Idx, blamed.Idx))
						}
						last := env.Invs[len(env.Invs)-1]
						if !last.Falsified() {
							viol("final-replay-not-falsified", "the case presented as 'Failed test output' did not signal a failure")
						}
						if !strings.Contains(v.ErrText, "after") {
							viol("unexpected-report", "failure text is neither 'failed after' nor 'panic after'")
						}
					})
				}})
			}
		}
	}
	// test cases that consume no data at all (a skip before the first draw), followed by failing ones
	for _, sd := range seeds {
		sd := sd
		units = append(units, Unit{Name: fmt.Sprintf("C11/skip-before-any-draw/seed=%d", sd), Run: func(c *Ctx) {
			prog := progPreDecide()
			cfg := Config{Checks: 5, Seed: sd, ShrinkMS: 3, NoFailFile: true, Name: "TestC11"}
			alpha := func(ctx string) []Beh {
				if ctx == "pre" {
					return []Beh{BPass, BSkip}
				}
				return []Beh{BPass, BFatalA, BErrorf, BSkip}
			}
			d := &LazyDFS{Prog: prog, Cfg: cfg, Alphabet: alpha, P: 8, MaxDev: 3}
			c.R.Bounds = "deviations<=3 over the first 8 decision points (pre-draw and post-draw)"
			d.Explore(c, func(log *RunLog, assign []KV, devs int) {
				env := log.Env
				v := log.Verdict()
				first := env.FirstFalsified()
				blamed := env.Blamed()
				c.Outcome(fmt.Sprintf("%s %v", v.Class, assign), first != nil)
				replay := map[string]any{"program": prog.Name, "assign": assign, "config": cfg.String()}
				viol := func(clause, detail string) {
					c.Violate(Violation{Sig: "C11 " + clause, Detail: fmt.Sprintf("%s\nTB: %s %q\ninvocations: %s", detail, v.Class, trunc(v.ErrText, 300), SummarizeInvs(env.Invs, 12)), Replay: replay, Devs: devs})
				}
				if log.Escaped != nil {
					viol("escaped-panic", fmt.Sprintf("%v", log.Escaped))
					return
				}
				if v.Class == "flaky" {
					viol("flaky-reported cause=zero-draw-case-before", "Check called a deterministic property flaky (a test case that drew nothing preceded the failing one)")
					return
				}
				if first == nil {
					if log.TB.IsFail && v.Class != "only-generated" {
						viol("failed-without-falsification", "no test case signalled a failure but the test failed")
					}
					return
				}
				if !log.TB.IsFail {
					viol("falsification-lost kind="+first.Signalled[0].String(), "a test case signalled a failure but the test passed")
					return
				}
				if blamed == nil || !blamed.Falsified() || blamed.Idx != first.Idx {
					viol("innocent-case-blamed by=zero-draw-case", fmt.Sprintf("first falsified case #%d; case treated as falsifying: %v", first.Idx, blamed))
					return
				}
				// the reproduction (next invocation) must see the very same draws
				if blamed.Idx+1 < len(env.Invs) && env.Invs[blamed.Idx+1].Draws != blamed.Draws {
					viol("reproduction-draws-differ", fmt.Sprintf("blamed case drew %s, its reproduction drew %s", blamed.Draws, env.Invs[blamed.Idx+1].Draws))
				}
			})
		}})
	}
	// the two executions of a fail-file case (first run, then "trying to reproduce") are two test cases as
	// well: the second one is judged on its own execution, with nothing left over from the first - for
	// every failure kind, also when rapid looks at the failure state of the T before the failing call (state machine)
	units = append(units, Unit{Name: "C11/fail-file-case-then-its-reproduction", Run: func(c *Ctx) {
		k := 0
		for _, size := range []string{"steps", "one", "empty"} {
			for _, kind := range []Beh{BFatalA, BErrorf, BFailNowC, BPanicStr, BCleanupErrorf, BCleanupFatal, BErrorfThenFatalA, BFail} {
				k++
				c06RunAs(c, c06Scen{name: "TestC11Replay", chunks: []string{"plain line"}, size: size, kind: kind}, uint64(seed)*17+uint64(k), "C11")
			}
		}
	}})
	// draw bookkeeping: the default label of an unlabelled draw ("#<number of the draw within the test case>")
	// is what the verbose log of the search and the final replay have in common; every test case counts from 0
	units = append(units, Unit{Name: "C11/default-draw-labels-count-from-0-in-every-case", Run: func(c *Ctx) {
		for _, n := range []int{1, 3, 6} {
			for _, base := range []Beh{BPass, BSkip} {
				prog := &LazyProgram{Name: "unlabelled-draws", Base: func(string, string) Beh { return base }, Body: func(t *rapid.T, e *Env) {
					x := rapid.Uint64().Draw(t, "")
					y := rapid.Bool().Draw(t, "")
					e.cur.Draws = fmt.Sprint(x, y)
					e.Do(t, "body", e.cur.Draws)
				}}
				env := NewEnv(nil, prog.Base)
				log := RunCheck(prog, env, Config{Checks: n, Seed: uint64(seed)*3 + 11, ShrinkMS: 3, NoFailFile: true, Verbose: true, Name: "TestC11labels"})
				c.R.Evals++
				c.R.States++
				c.R.Transitions += int64(len(env.Invs))
				// split the log at the "test #k start" lines and look at the labels in between
				caseNo, want := 0, 0
				var seen []string
				for _, ev := range log.TB.Events {
					if ev.Kind != "log" {
						continue
					}
					switch {
					case strings.HasPrefix(ev.Text, "[rapid] test #") && strings.Contains(ev.Text, " start"):
						caseNo++
						want = 0
					case strings.HasPrefix(ev.Text, "[rapid] draw #"):
						lab := ev.Text[len("[rapid] draw "):strings.Index(ev.Text, ":")]
						seen = append(seen, fmt.Sprintf("case%d:%s", caseNo, lab))
						if caseNo > 0 && lab != fmt.Sprintf("#%d", want) {
							c.Violate(Violation{Sig: "C11 draw-numbering-carries-over", Detail: fmt.Sprintf("-rapid.v, -rapid.checks=%d: draw %d of test case %d is logged as %q (labels so far: %v)", n, want, caseNo, lab, seen),
								Replay: map[string]any{"engine": "check", "checks": n, "base": base.String()}})
							return
						}
						want++
					}
				}
				c.Outcome(fmt.Sprintf("n=%d base=%s cases=%d labels=%d", n, base, caseNo, len(seen)), caseNo > 1)
			}
		}
	}})
	return units
}

func init() {
	Register(&Check{
		ID:    "C11",
		Level: "model_checking",
		Rule: "E2 lazyprop: all sequences over {pass, Errorf, Skip, Errorf;Skip, Cleanup(Errorf), Cleanup(panic), Fatalf, Cleanup(pass), Cleanup(Errorf);Skip, Cleanup(Skip), Errorf;rejected-draw} of length 3 (quick) / 4 (thorough) for the first test cases, then passes; checks in {5,20}; " +
			"the case rapid treats as falsifying is identified by PRNG re-seeding events (reproduction uses the blamed case's seed) and must be the first case that really signalled. distinct = distinct (verdict class, sequence); non-trivial = some case signalled.",
		Assumptions: []string{"inputs are practically unique per test case (64-bit draw), so a sequence of behaviours is a sequence of test cases"},
		Units:       c11Units,
		Budget:      map[string]time.Duration{"quick": 50 * time.Second, "thorough": 15 * time.Minute},
	})
}
