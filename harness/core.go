// Package harness: bounded exhaustive exploration of pgregory.net/rapid.
// core.go: check registry, worker protocol, evidence, known findings, replays.
package harness

import (
	"bufio"
	"crypto/sha256"
	"encoding/hex"
	"encoding/json"
	"fmt"
	"hash/fnv"
	"io"
	"os"
	"os/exec"
	"path/filepath"
	"regexp"
	"runtime"
	"sort"
	"strconv"
	"strings"
	"sync"
	"time"
)

// VerifDir is where known_findings.json, evidence/ and replays/ live: /verif, or a snapshot of it (VERIF_DIR).
var VerifDir = func() string {
	if d := os.Getenv("VERIF_DIR"); d != "" {
		return d
	}
	return "/verif"
}()

// Violation is one counterexample found by a unit.
type Violation struct {
	Sig    string         `json:"sig"`    // narrow signature: oracle clause + minimal distinguishing facts
	Detail string         `json:"detail"` // human readable
	Replay map[string]any `json:"replay"` // everything needed to re-run it without the explorer
	Devs   int            `json:"devs"`   // deviations from the base (fewest first)
}

// UnitResult is what a worker reports for one unit of work.
type UnitResult struct {
	Unit        string           `json:"unit"`
	Index       int              `json:"index"`
	Evals       int64            `json:"evals"`       // executions of the real code compared with an oracle
	States      int64            `json:"states"`      // choice-tree nodes / scheduler states visited
	Transitions int64            `json:"transitions"` // choice-tree edges / scheduler steps taken
	Distinct    int64            `json:"distinct"`    // distinct outcomes observed
	Nontrivial  int64            `json:"nontrivial"`  // distinct outcomes that are non-trivial by the check's rule
	Complete    bool             `json:"complete"`    // the unit's space was enumerated completely (no cap hit)
	Caps        []string         `json:"caps,omitempty"`
	Bounds      string           `json:"bounds,omitempty"`
	Violations  []Violation      `json:"violations,omitempty"`
	Samples     []any            `json:"samples,omitempty"`
	Extra       map[string]int64 `json:"extra,omitempty"`
	HarnessErr  string           `json:"harness_err,omitempty"`
	WallS       float64          `json:"wall_s"`
}

// Ctx is handed to a unit.
type Ctx struct {
	Tier     string
	Seed     int64
	Deadline time.Time
	R        *UnitResult
	outcomes map[uint64]struct{}
	nontriv  map[uint64]struct{}
	maxViol  int
}

func (c *Ctx) Quick() bool   { return c.Tier != "thorough" }
func (c *Ctx) Expired() bool { return time.Now().After(c.Deadline) }

// Outcome records one observed outcome (for distinct counting).
func (c *Ctx) Outcome(s string, nontrivial bool) {
	h := fnv.New64a()
	h.Write([]byte(s))
	k := h.Sum64()
	if _, ok := c.outcomes[k]; !ok {
		c.outcomes[k] = struct{}{}
		if os.Getenv("VERIF_DUMP_OUTCOMES") != "" {
			fmt.Fprintln(os.Stderr, "outcome:", trunc(s, 300))
		}
		if len(c.R.Samples) < 3 {
			c.R.Samples = append(c.R.Samples, trunc(s, 400))
		}
	}
	if nontrivial {
		c.nontriv[k] = struct{}{}
	}
}

func (c *Ctx) Sample(v any) {
	if len(c.R.Samples) < 4 {
		c.R.Samples = append(c.R.Samples, v)
	}
}

func (c *Ctx) Count(key string, n int64) {
	if c.R.Extra == nil {
		c.R.Extra = map[string]int64{}
	}
	c.R.Extra[key] += n
}

// Violate records a violation; at most a few per signature are kept.
func (c *Ctx) Violate(v Violation) {
	if v.Replay == nil {
		v.Replay = map[string]any{}
	}
	v.Replay["unit"] = c.R.Unit
	v.Replay["tier"] = c.Tier
	v.Replay["seed"] = c.Seed
	n := 0
	for i := range c.R.Violations {
		if c.R.Violations[i].Sig == v.Sig {
			n++
			if v.Devs < c.R.Violations[i].Devs {
				c.R.Violations[i] = v
				return
			}
		}
	}
	if n == 0 && len(c.R.Violations) < 50 {
		c.R.Violations = append(c.R.Violations, v)
	}
}

func (c *Ctx) Cap(s string) {
	c.R.Complete = false
	for _, x := range c.R.Caps {
		if x == s {
			return
		}
	}
	c.R.Caps = append(c.R.Caps, s)
}

func trunc(s string, n int) string {
	if len(s) <= n {
		return s
	}
	return s[:n] + fmt.Sprintf("...(+%d bytes)", len(s)-n)
}

// Unit is one shardable piece of a check.
type Unit struct {
	Name string
	Run  func(c *Ctx)
}

// Check describes how one property is decided.
type Check struct {
	ID          string
	Level       string // evidence level
	Rule        string
	Assumptions []string
	Units       func(tier string, seed int64) []Unit
	Budget      map[string]time.Duration // per tier wall budget for the whole check
	Workers     int                      // 0 = NumCPU
	Explain     string
}

var registry = map[string]*Check{}

func Register(c *Check) { registry[c.ID] = c }

func Lookup(id string) *Check { return registry[id] }

func IDs() []string {
	var ids []string
	for k := range registry {
		ids = append(ids, k)
	}
	sort.Strings(ids)
	return ids
}

// ---------------------------------------------------------------- worker side

// WorkerMain serves unit indices read from stdin, one result line per unit.
func WorkerMain(id, tier string, seed int64, deadlineUnix int64) {
	ck := Lookup(id)
	if ck == nil {
		fmt.Fprintf(os.Stderr, "unknown check %s\n", id)
		os.Exit(2)
	}
	units := unitsFor(ck, tier, seed)
	in := bufio.NewReader(os.Stdin)
	out := bufio.NewWriter(os.Stdout)
	deadline := time.Unix(deadlineUnix, 0)
	for {
		line, err := in.ReadString('\n')
		if err != nil {
			return
		}
		idx, err := strconv.Atoi(strings.TrimSpace(line))
		if err != nil || idx < 0 || idx >= len(units) {
			return
		}
		res := RunUnit(units[idx], idx, tier, seed, deadline)
		b, _ := json.Marshal(res)
		out.Write(b)
		out.WriteByte('\n')
		out.Flush()
	}
}

var currentExec struct {
	mu       sync.Mutex
	start    time.Time
	desc     string
	unit     string
	idx      int
	hangSig  string
	deadline time.Time // of the whole run: a unit still busy long after it is stuck in the code under test (units poll the deadline between executions)
}

// ExecBegin/ExecEnd bracket one execution of the code under test for the hang watchdog.
func ExecBegin(desc string) {
	currentExec.mu.Lock()
	currentExec.start = time.Now()
	currentExec.desc = desc
	currentExec.mu.Unlock()
}
func ExecEnd() {
	currentExec.mu.Lock()
	currentExec.start = time.Time{}
	currentExec.mu.Unlock()
}

const HangLimit = 90 * time.Second

// UnitOverrunLimit: how long after the deadline of the whole run a unit may still be busy before it counts as hanging
const UnitOverrunLimit = 150 * time.Second

var watchdogOnce sync.Once

func startWatchdog() {
	watchdogOnce.Do(func() {
		go func() {
			for {
				time.Sleep(2 * time.Second)
				currentExec.mu.Lock()
				st, desc, unit, idx, dl := currentExec.start, currentExec.desc, currentExec.unit, currentExec.idx, currentExec.deadline
				currentExec.mu.Unlock()
				var ms runtime.MemStats
				runtime.ReadMemStats(&ms)
				hang := !st.IsZero() && time.Since(st) > HangLimit
				if !hang && !dl.IsZero() && unit != "" && time.Since(dl) > UnitOverrunLimit {
					hang = true
					if desc == "" || st.IsZero() {
						desc = "the unit was still busy " + UnitOverrunLimit.String() + " after the deadline of the run (no execution of its own was bracketed)"
					}
				}
				mem := ms.HeapAlloc > 6<<30
				if hang || mem {
					what := "hang"
					if mem {
						what = "memory-blowup"
					}
					res := UnitResult{Unit: unit, Index: idx, Complete: false}
					res.Violations = []Violation{{
						Sig:    what + " unit=" + unit,
						Detail: fmt.Sprintf("%s: one execution of the code under test did not finish within %v (or exceeded 6 GiB): %s", what, HangLimit, desc),
						Replay: map[string]any{"unit": unit, "exec": desc},
					}}
					b, _ := json.Marshal(res)
					os.Stdout.Write(append(b, '\n'))
					os.Exit(3)
				}
			}
		}()
	})
}

func RunUnit(u Unit, idx int, tier string, seed int64, deadline time.Time) (res *UnitResult) {
	startWatchdog()
	res = &UnitResult{Unit: u.Name, Index: idx, Complete: true}
	c := &Ctx{Tier: tier, Seed: seed, Deadline: deadline, R: res, outcomes: map[uint64]struct{}{}, nontriv: map[uint64]struct{}{}}
	currentExec.mu.Lock()
	currentExec.unit, currentExec.idx, currentExec.deadline = u.Name, idx, deadline
	currentExec.mu.Unlock()
	start := time.Now()
	func() {
		defer func() {
			if r := recover(); r != nil {
				buf := make([]byte, 8192)
				buf = buf[:runtime.Stack(buf, false)]
				res.Complete = false
				if panicRaisedInRapid(string(buf)) {
					// the code under test panicked in a call the unit made directly (a constructor, StateMachineActions, ...): that is a
					// finding about the code under test, not a problem of the harness
					res.Violations = append(res.Violations, Violation{Sig: "panic-in-code-under-test unit=" + u.Name,
						Detail: fmt.Sprintf("a call into package rapid made by this unit panicked: %v\n%s", r, trunc(string(buf), 2500)), Replay: map[string]any{"unit": u.Name}})
				} else {
					res.HarnessErr = fmt.Sprintf("unit panicked: %v\n%s", r, buf)
				}
			}
		}()
		u.Run(c)
	}()
	ExecEnd()
	currentExec.mu.Lock()
	currentExec.unit, currentExec.deadline = "", time.Time{} // an idle worker is not a hanging unit
	currentExec.mu.Unlock()
	res.Distinct = int64(len(c.outcomes))
	res.Nontrivial = int64(len(c.nontriv))
	res.WallS = time.Since(start).Seconds()
	return res
}

// ---------------------------------------------------------------- parent side

type KnownFinding struct {
	Property string `json:"property"`
	Status   string `json:"status"` // "known" or "fixed"
	Sig      string `json:"sig"`    // regexp matched against Violation.Sig (anchored)
	What     string `json:"what"`
	Commit   string `json:"commit,omitempty"`
}

func loadKnown() []KnownFinding {
	b, err := os.ReadFile(filepath.Join(VerifDir, "known_findings.json"))
	if err != nil {
		return nil
	}
	var f struct {
		Findings []KnownFinding `json:"findings"`
	}
	if err := json.Unmarshal(b, &f); err != nil {
		fmt.Fprintf(os.Stderr, "known_findings.json: %v\n", err)
		os.Exit(2)
	}
	return f.Findings
}

type Evidence struct {
	PropertyID  string         `json:"property_id"`
	Tier        string         `json:"tier"`
	Seed        int64          `json:"seed"`
	Level       string         `json:"level"`
	Coverage    map[string]any `json:"coverage"`
	Assumptions []string       `json:"assumptions,omitempty"`
	WallS       float64        `json:"wall_s"`
	Violations  int            `json:"violations"`
}

// ParentMain runs a whole check: spawns workers, aggregates, writes evidence, prints verdict lines.
// Returns the process exit code.
func ParentMain(id, tier string, seed int64, self string, instrInfo string) int {
	ck := Lookup(id)
	if ck == nil {
		fmt.Fprintf(os.Stderr, "unknown check %s (have %v)\n", id, IDs())
		return 2
	}
	start := time.Now()
	budget := ck.Budget[tier]
	if budget == 0 {
		budget = 10 * time.Minute
	}
	if s := os.Getenv("VERIF_BUDGET_S"); s != "" {
		if n, err := strconv.Atoi(s); err == nil {
			budget = time.Duration(n) * time.Second
		}
	}
	deadline := start.Add(budget)
	units := unitsFor(ck, tier, seed)
	nw := ck.Workers
	if nw == 0 {
		nw = runtime.NumCPU()
	}
	if nw > len(units) {
		nw = len(units)
	}
	if s := os.Getenv("VERIF_WORKERS"); s != "" {
		if n, err := strconv.Atoi(s); err == nil && n > 0 {
			nw = n
		}
	}

	work := make(chan int, len(units))
	for i := range units {
		work <- i
	}
	close(work)
	results := make([]*UnitResult, len(units))
	var mu sync.Mutex
	var wg sync.WaitGroup
	var harnessErrs []string
	for w := 0; w < nw; w++ {
		wg.Add(1)
		go func(w int) {
			defer wg.Done()
			var cmd *exec.Cmd
			var stdin io.WriteCloser
			var rd *bufio.Reader
			var stderr *strings.Builder
			spawn := func() error {
				cmd = exec.Command(self, "worker", id, "--tier", tier, "--seed", strconv.FormatInt(seed, 10), "--deadline", strconv.FormatInt(deadline.Unix(), 10))
				cmd.Env = append(os.Environ(), "GOMAXPROCS=2", "GOGC=200")
				wd, err := os.MkdirTemp("", "vw-")
				if err != nil {
					return err
				}
				cmd.Dir = wd
				stderr = &strings.Builder{}
				cmd.Stderr = stderr
				var e error
				stdin, e = cmd.StdinPipe()
				if e != nil {
					return e
				}
				so, e := cmd.StdoutPipe()
				if e != nil {
					return e
				}
				rd = bufio.NewReaderSize(so, 1<<20)
				return cmd.Start()
			}
			kill := func() {
				if cmd != nil {
					stdin.Close()
					cmd.Wait()
					os.RemoveAll(cmd.Dir)
					cmd = nil
				}
			}
			defer kill()
			for idx := range work {
				if cmd == nil {
					if err := spawn(); err != nil {
						mu.Lock()
						harnessErrs = append(harnessErrs, "spawn: "+err.Error())
						mu.Unlock()
						return
					}
				}
				if time.Now().After(deadline) {
					mu.Lock()
					results[idx] = &UnitResult{Unit: units[idx].Name, Index: idx, Complete: false, Caps: []string{"time budget reached before unit started"}}
					mu.Unlock()
					continue
				}
				fmt.Fprintf(stdin, "%d\n", idx)
				line, err := rd.ReadBytes('\n')
				var res UnitResult
				if err == nil {
					err = json.Unmarshal(line, &res)
				}
				if err != nil {
					cmd.Process.Kill()
					se := stderr.String()
					kill()
					mu.Lock()
					if kind := crashKind(se); kind != "" {
						// the code under test took the whole process down (unrecoverable runtime error): that is a finding, not a harness problem
						results[idx] = &UnitResult{Unit: units[idx].Name, Index: idx, Complete: false, Violations: []Violation{{
							Sig:    "process-crash kind=" + kind + " unit=" + units[idx].Name,
							Detail: "the worker process running this unit was killed by an unrecoverable Go runtime error raised in the code under test:\n" + trunc(se, 2500),
							Replay: map[string]any{"unit": units[idx].Name, "tier": tier, "seed": seed},
						}}}
					} else {
						harnessErrs = append(harnessErrs, fmt.Sprintf("worker died on unit %q: %v; stderr: %s", units[idx].Name, err, trunc(se, 3000)))
					}
					mu.Unlock()
					continue
				}
				mu.Lock()
				results[idx] = &res
				mu.Unlock()
				if len(res.Violations) > 0 && strings.HasPrefix(res.Violations[0].Sig, "hang ") || len(res.Violations) > 0 && strings.HasPrefix(res.Violations[0].Sig, "memory-blowup ") {
					// watchdog made the worker exit; restart for the remaining units
					kill()
				}
			}
		}(w)
	}
	wg.Wait()

	// aggregate
	var evals, states, trans, distinct, nontriv int64
	complete := true
	capsSet := map[string]int{}
	var samples []any
	var viols []Violation
	extra := map[string]int64{}
	unitsDone := 0
	for i, r := range results {
		if r == nil {
			complete = false
			capsSet["unit not run: "+units[i].Name]++
			continue
		}
		unitsDone++
		evals += r.Evals
		states += r.States
		trans += r.Transitions
		distinct += r.Distinct
		nontriv += r.Nontrivial
		if !r.Complete {
			complete = false
		}
		for _, c := range r.Caps {
			capsSet[c]++
		}
		if len(samples) < 6 && len(r.Samples) > 0 {
			samples = append(samples, map[string]any{"unit": r.Unit, "case": r.Samples[0]})
		}
		for k, v := range r.Extra {
			extra[k] += v
		}
		viols = append(viols, r.Violations...)
		if r.HarnessErr != "" {
			harnessErrs = append(harnessErrs, r.Unit+": "+r.HarnessErr)
		}
	}
	var caps []string
	for c, n := range capsSet {
		caps = append(caps, fmt.Sprintf("%s (x%d)", c, n))
	}
	sort.Strings(caps)

	// classify violations
	known := loadKnown()
	sort.SliceStable(viols, func(i, j int) bool { return viols[i].Devs < viols[j].Devs })
	seenSig := map[string]bool{}
	exit := 0
	nviol := 0
	knownPrinted := map[string]bool{}
	for _, v := range viols {
		if seenSig[v.Sig] {
			continue
		}
		seenSig[v.Sig] = true
		matched := false
		for _, k := range known {
			if k.Property != id || k.Status != "known" {
				continue
			}
			if ok, _ := regexp.MatchString("^(?:"+k.Sig+")$", v.Sig); ok {
				matched = true
				if !knownPrinted[k.Sig] {
					knownPrinted[k.Sig] = true
					fmt.Printf("KNOWN-FINDING: property=%s %s [sig: %s]\n", id, k.What, v.Sig)
				}
				break
			}
		}
		if matched {
			continue
		}
		if os.Getenv("VERIF_NO_CONFIRM") == "" && nviol < 6 {
			ok, note := confirmViolation(self, id, tier, seed, units, v)
			if !ok {
				harnessErrs = append(harnessErrs, fmt.Sprintf("violation %q was NOT reproducible and is not reported as a finding: %s", v.Sig, note))
				continue
			}
			v.Detail += "\n(" + note + ")"
		}
		nviol++
		path := writeReplay(id, v)
		fmt.Printf("VIOLATION property=%s replay=%s\n", id, path)
		fmt.Printf("  signature: %s\n  %s\n", v.Sig, strings.ReplaceAll(trunc(v.Detail, 3000), "\n", "\n  "))
		exit = 1
	}

	if len(samples) == 0 {
		samples = append(samples, "no sample recorded")
	}
	cov := map[string]any{
		"evaluations":                   evals,
		"distinct_nontrivial":           nontriv,
		"distinct_outcomes":             distinct,
		"rule":                          ck.Rule,
		"samples":                       samples,
		"states":                        states,
		"transitions":                   trans,
		"traces_validated_against_impl": evals,
		"exhaustive":                    complete && len(harnessErrs) == 0,
		"units":                         len(units),
		"units_run":                     unitsDone,
		"caps_hit":                      caps,
		"workers":                       nw,
		"instrumentation":               instrInfo,
		"known_findings_matched":        len(knownPrinted),
	}
	if ck.Explain != "" {
		cov["explanation"] = ck.Explain
	}
	for k, v := range extra {
		cov["n_"+k] = v
	}
	ev := Evidence{PropertyID: id, Tier: tier, Seed: seed, Level: ck.Level, Coverage: cov,
		Assumptions: ck.Assumptions, WallS: time.Since(start).Seconds(), Violations: nviol}
	b, _ := json.MarshalIndent(ev, "", " ")
	evdir := filepath.Join(VerifDir, "evidence")
	if d := os.Getenv("VERIF_EVIDENCE_DIR"); d != "" {
		evdir = d
	}
	os.MkdirAll(evdir, 0o755)
	if err := os.WriteFile(filepath.Join(evdir, id+".json"), append(b, '\n'), 0o644); err != nil {
		fmt.Fprintf(os.Stderr, "evidence: %v\n", err)
		return 2
	}
	fmt.Printf("%s tier=%s seed=%d units=%d/%d executions=%d states=%d transitions=%d distinct_outcomes=%d nontrivial=%d exhaustive=%v violations=%d known=%d wall=%.1fs\n",
		id, tier, seed, unitsDone, len(units), evals, states, trans, distinct, nontriv, complete && len(harnessErrs) == 0, nviol, len(knownPrinted), time.Since(start).Seconds())
	for _, c := range caps {
		fmt.Printf("  cap: %s\n", c)
	}
	if os.Getenv("VERIF_VERBOSE") != "" {
		rs := append([]*UnitResult(nil), results...)
		sort.Slice(rs, func(i, j int) bool { return rs[i] != nil && (rs[j] == nil || rs[i].WallS > rs[j].WallS) })
		for i := 0; i < len(rs) && i < 12 && rs[i] != nil; i++ {
			fmt.Printf("  slow unit: %-60s %.1fs evals=%d complete=%v\n", rs[i].Unit, rs[i].WallS, rs[i].Evals, rs[i].Complete)
		}
	}
	if len(harnessErrs) > 0 {
		for _, e := range harnessErrs {
			fmt.Fprintf(os.Stderr, "HARNESS-ERROR: %s\n", trunc(e, 4000))
		}
		if exit == 0 {
			exit = 2
		}
	}
	return exit
}

func writeReplay(id string, v Violation) string {
	dir := filepath.Join(VerifDir, "replays")
	if d := os.Getenv("VERIF_EVIDENCE_DIR"); d != "" {
		dir = filepath.Join(d, "replays")
	}
	os.MkdirAll(dir, 0o755)
	h := sha256.Sum256([]byte(v.Sig))
	path := filepath.Join(dir, id+"-"+hex.EncodeToString(h[:5])+".json")
	b, _ := json.MarshalIndent(map[string]any{"property": id, "signature": v.Sig, "detail": v.Detail, "deviations": v.Devs, "replay": v.Replay}, "", " ")
	os.WriteFile(path, append(b, '\n'), 0o644)
	return path
}

// DebugUnit runs the first unit whose name contains sub in this process and prints its result.
func DebugUnit(id, sub, tier string, seed int64) {
	ck := Lookup(id)
	for i, u := range unitsFor(ck, tier, seed) {
		if strings.Contains(u.Name, sub) {
			res := RunUnit(u, i, tier, seed, time.Now().Add(10*time.Minute))
			b, _ := json.MarshalIndent(res, "", " ")
			fmt.Println(string(b))
			return
		}
	}
	fmt.Println("no such unit")
}

// crashKind classifies an unrecoverable runtime error from a dead worker's stderr ("" = unknown cause).
func crashKind(stderr string) string {
	switch {
	case strings.Contains(stderr, "stack overflow") || strings.Contains(stderr, "goroutine stack exceeds"):
		return "stack-overflow"
	case strings.Contains(stderr, "concurrent map"):
		return "concurrent-map-access"
	case strings.Contains(stderr, "all goroutines are asleep"):
		return "deadlock"
	case strings.Contains(stderr, "fatal error: out of memory") || strings.Contains(stderr, "cannot allocate memory"):
		return "out-of-memory"
	}
	return ""
}

// UnitJSONMain runs one unit by index and prints its result as JSON (used to confirm violations).
func UnitJSONMain(id, tier string, seed int64, idx int, deadlineUnix int64) {
	ck := Lookup(id)
	units := unitsFor(ck, tier, seed)
	if idx < 0 || idx >= len(units) {
		os.Exit(2)
	}
	res := RunUnit(units[idx], idx, tier, seed, time.Unix(deadlineUnix, 0))
	b, _ := json.Marshal(res)
	os.Stdout.Write(append(b, '\n'))
}

// confirmViolation re-runs the unit that reported v twice in fresh processes; the same signature must
// reappear both times before the violation is believed (the same input must fail every time).
func confirmViolation(self, id, tier string, seed int64, units []Unit, v Violation) (confirmed bool, note string) {
	unit, _ := v.Replay["unit"].(string)
	idx := -1
	for i, u := range units {
		if u.Name == unit {
			if idx >= 0 {
				return false, fmt.Sprintf("two units are called %q: the harness can not tell which one to re-run", unit)
			}
			idx = i
		}
	}
	if idx < 0 {
		return true, "unit not identified; not re-run"
	}
	for k := 0; k < 2; k++ {
		wd, _ := os.MkdirTemp("", "vconfirm-")
		cmd := exec.Command(self, "unit-json", id, "--tier", tier, "--seed", strconv.FormatInt(seed, 10), "--index", strconv.Itoa(idx), "--deadline", strconv.FormatInt(time.Now().Add(15*time.Minute).Unix(), 10))
		cmd.Dir = wd
		var se strings.Builder
		cmd.Stderr = &se
		out, err := cmd.Output()
		os.RemoveAll(wd)
		if strings.HasPrefix(v.Sig, "process-crash kind=") {
			if k := crashKind(se.String()); k != "" && strings.HasPrefix(v.Sig, "process-crash kind="+k+" ") {
				continue // crashed again the same way: reproduced
			}
			return false, fmt.Sprintf("confirmation run %d did not crash the same way", k+1)
		}
		var res UnitResult
		lines := strings.Split(strings.TrimSpace(string(out)), "\n")
		if err2 := json.Unmarshal([]byte(lines[len(lines)-1]), &res); err2 != nil {
			return false, fmt.Sprintf("confirmation run %d did not finish (%v %v)", k+1, err, err2)
		}
		found := false
		for _, w := range res.Violations {
			if w.Sig == v.Sig {
				found = true
			}
		}
		if !found {
			return false, fmt.Sprintf("confirmation run %d of unit %q did not reproduce the signature", k+1, unit)
		}
	}
	return true, "reproduced in 2 of 2 confirmation runs in fresh processes"
}

// unitsFor: the unit list of a tier. The thorough tier starts with every unit of the quick tier (its
// bounds are completed first, so that a time cap can only cut the deeper exploration and "fully covered
// below the cap" always includes the quick bounds), followed by the thorough units.
func unitsFor(ck *Check, tier string, seed int64) []Unit {
	if tier != "thorough" {
		return ck.Units(tier, seed)
	}
	var out []Unit
	for _, u := range ck.Units("quick", seed) {
		u.Name += " [quick bounds]"
		out = append(out, u)
	}
	return append(out, ck.Units("thorough", seed)...)
}

// panicRaisedInRapid: in the stack trace of a recovered panic, is the innermost frame below the runtime's panic machinery
// a function of package rapid itself (and not of the harness or of the scheduler run-time mounted under rapid/verifrt)?
func panicRaisedInRapid(stack string) bool {
	lines := strings.Split(stack, "\n")
	seenPanic := false
	for _, ln := range lines {
		if strings.HasPrefix(ln, "\t") || strings.HasPrefix(ln, "goroutine ") || ln == "" {
			continue
		}
		if strings.HasPrefix(ln, "panic(") || strings.HasPrefix(ln, "runtime.") {
			if strings.HasPrefix(ln, "panic(") {
				seenPanic = true
			}
			continue
		}
		if !seenPanic {
			continue // frames of the deferred function that is taking this trace
		}
		if strings.HasPrefix(ln, "reflect.") || strings.HasPrefix(ln, "sync.") || strings.HasPrefix(ln, "fmt.") || strings.HasPrefix(ln, "strconv.") || strings.HasPrefix(ln, "regexp") || strings.HasPrefix(ln, "unicode") || strings.HasPrefix(ln, "math") || strings.HasPrefix(ln, "sort.") || strings.HasPrefix(ln, "bytes.") || strings.HasPrefix(ln, "strings.") {
			continue // the standard library, called by somebody further down
		}
		return strings.HasPrefix(ln, "pgregory.net/rapid.") // excludes pgregory.net/rapid/verifrt/... and verif/harness
	}
	return false
}
