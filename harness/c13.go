package harness

// C13 - MakeFuzz is total and faithful on arbitrary bytes.
// E1 enumerates answer sequences; each is turned into byte strings (whole words, every short tail,
// appended junk) and fed to the body of MakeFuzz on a fake TB. Oracle: the outcome class and the
// draws equal an independent little-endian, zero-padded word replay; deterministic; padding-insensitive.

import (
	"bytes"
	"encoding/binary"
	"fmt"
	"os"
	"os/exec"
	"runtime/debug"
	"strings"
	"time"

	"pgregory.net/rapid"
)

// wordsOfBytes: the specification of MakeFuzz's input reading, written independently of the implementation.
func wordsOfBytes(b []byte) []uint64 {
	var ws []uint64
	for i := 0; i < len(b); i += 8 {
		var w uint64
		for j := 0; j < 8 && i+j < len(b); j++ {
			w |= uint64(b[i+j]) << (8 * uint(j))
		}
		ws = append(ws, w)
	}
	return ws
}

type fuzzOut struct {
	class string // pass, skip, fail
	draws string
	esc   any
	msg   string
}

func runFuzzBody(body func(t *rapid.T, r *Rec), input []byte) fuzzOut {
	rec := &Rec{}
	tb := NewTB("FuzzC13")
	esc := Guard(func() { rapid.VerifCheckFuzz(tb, c04Prop(body, rec), input) })
	o := fuzzOut{class: "pass", draws: strings.Join(rec.Draws, "|"), esc: esc, msg: tb.ErrorText()}
	if tb.IsFail {
		o.class = "fail"
	} else if tb.IsSkip {
		o.class = "skip"
	}
	return o
}

func classOfKind(k int) string {
	switch k {
	case rapid.VerifOK:
		return "pass"
	case rapid.VerifInvalid:
		return "skip"
	}
	return "fail"
}

func c13Check(c *Ctx, pname string, body func(t *rapid.T, r *Rec), input []byte, devs int, how string) (fuzzOut, int) {
	got := runFuzzBody(body, input)
	c.R.Evals++
	tb := NewTB("C13")
	tb.Quiet = true
	ref, _ := runWith(body, func(prop func(*rapid.T)) rapid.VerifResult {
		return rapid.VerifRunBuf(tb, wordsOfBytes(input), false, prop)
	})
	replay := map[string]any{"engine": "fuzz", "program": pname, "input_hex": fmt.Sprintf("%x", input), "how": how}
	viol := func(clause, detail string) {
		c.Violate(Violation{Sig: "C13 " + clause + " prog=" + pname, Detail: fmt.Sprintf("%s\ninput (%d bytes, %s): %x", detail, len(input), how, trunc(string(input), 80)), Replay: replay, Devs: devs})
	}
	if got.esc != nil {
		viol("escaped-panic", fmt.Sprintf("the fuzz target crashed: %v", got.esc))
		return got, len(ref.res.Data)
	}
	if got.class != classOfKind(ref.res.Kind) {
		viol("outcome-differs", fmt.Sprintf("fuzz target: %s (%s); replay of the little-endian zero-padded words %s: %s %q", got.class, trunc(got.msg, 100), fmtWords(wordsOfBytes(input)), kindName(ref.res.Kind), ref.res.Msg))
	} else if got.draws != ref.draws {
		viol("draws-differ", fmt.Sprintf("fuzz target drew %s; replay of the words drew %s", got.draws, ref.draws))
	}
	return got, len(ref.res.Data)
}

func c13Units(tier string, seed int64) []Unit {
	quick := tier != "thorough"
	var units []Unit
	junk := [][]byte{{0}, {1}, {0xff}, {0xff, 0xff, 0xff, 0xff, 0xff, 0xff, 0xff, 0xff}, {1, 2, 3, 4, 5, 6, 7, 8, 9}, make([]byte, 17)}
	for _, p := range append(AllProgs(), FailingProgs()...) {
		if !(p.Has("rej") || p.Has("machine") || p.Name == "Int64()" || p.Name == "Float64()" || p.Name == "Bool()" || p.Name == "Make[made]" || p.Name == "String()") {
			continue
		}
		for _, base := range []string{"zeros", "ones"} {
			p, base := p, base
			units = append(units, Unit{Name: "C13/" + p.Name + "/" + base, Run: func(c *Ctx) {
				body := p.New()
				e := &BitDFS{Base: BaseZero, Depth: 12, MaxDev: 2, Overrun: false}
				if base == "ones" {
					e.Base = BaseOnes
				}
				e.Alpha = LevelAlpha(AlphaAll(3, AlphaEdge), AlphaAll(2, AlphaCoin))
				e.MaxExecs = 8000
				if !quick {
					e.Depth, e.MaxDev, e.MaxExecs = 24, 3, 40000
					e.Alpha = LevelAlpha(AlphaAll(3, AlphaFull(8)), AlphaAll(2, AlphaEdge), AlphaAll(1, AlphaCoin))
				}
				c.R.Bounds = fmt.Sprintf("depth=%d words, deviations<=%d, base=%s; per sequence: whole words, all 7 short tails with 3 tail fillings, 6 junk suffixes", e.Depth, e.MaxDev, base)
				tbq := NewTB("C13")
				tbq.Quiet = true
				e.Explore(c, func(src *Source, devs int) {
					// run once through the adapter only to learn the answer sequence
					rec := &Rec{}
					rapid.VerifRunSource(tbq, src, false, c04Prop(body, rec))
					words := src.Words()
					// unmask: a fuzzer supplies arbitrary high bits
					raw := make([]uint64, len(words))
					for i := range words {
						raw[i] = words[i]
						if (i+devs)%2 == 1 {
							raw[i] |= ^mask(src.Trace[i].N)
						}
					}
					full := wordsToBytes(raw)
					got, used := c13Check(c, p.Name, body, full, devs, "whole words")
					c.Outcome(got.class+" "+got.draws, got.class != "skip")
					// determinism
					if again := runFuzzBody(body, full); again.class != got.class || again.draws != got.draws {
						c.Violate(Violation{Sig: "C13 nondeterministic prog=" + p.Name, Detail: fmt.Sprintf("same input, first %s %s then %s %s", got.class, got.draws, again.class, again.draws),
							Replay: map[string]any{"program": p.Name, "input_hex": fmt.Sprintf("%x", full)}, Devs: devs})
					}
					// every short tail (cut 1..7 bytes off the last word), zero padding is the stream's job
					if len(full) >= 8 {
						for cut := 1; cut <= 7; cut++ {
							c13Check(c, p.Name, body, full[:len(full)-cut], devs, fmt.Sprintf("last word cut by %d bytes", cut))
						}
						for _, fill := range []byte{0x01, 0xff} {
							t := append(append([]byte(nil), full[:len(full)-8]...), fill, fill, fill)
							c13Check(c, p.Name, body, t, devs, "3-byte tail")
						}
					}
					// padding clause: bytes the property does not consume never change the outcome
					if got.esc == nil && got.class != "skip" && used*8 <= len(full) { // an exhausted input would consume the extra bytes
						consumed := full[:used*8]
						for ji, j := range junk {
							in := append(append([]byte(nil), consumed...), j...)
							o := runFuzzBody(body, in)
							c.R.Evals++
							if o.class != got.class || o.draws != got.draws {
								c.Violate(Violation{Sig: "C13 unconsumed-bytes-change-outcome prog=" + p.Name,
									Detail: fmt.Sprintf("the run consumed %d words; with junk suffix #%d appended: %s %s instead of %s %s", used, ji, o.class, o.draws, got.class, got.draws),
									Replay: map[string]any{"program": p.Name, "input_hex": fmt.Sprintf("%x", in)}, Devs: devs})
							}
						}
					}
				})
			}})
		}
	}
	// the behaviour alphabet through the fuzz body: fail iff the test case is falsified, skip iff invalid
	units = append(units, c13WidthUnit())
	units = append(units, c13LongInputUnit())
	units = append(units, Unit{Name: "C13/behaviours", Run: func(c *Ctx) {
		behs := append(append([]Beh{}, AllFalsifying...), BPass, BSkip, BSkipNow, BCleanupSkip, BCleanupPass)
		for _, ctx := range []string{"body", "custom", "action", "invariant"} {
			for _, b := range behs {
				if (ctx == "action" || ctx == "invariant") && b.Skips() {
					continue
				}
				prog := progUniqueCtx(ctx, b)
				for n := 0; n <= 40; n++ {
					input := make([]byte, n)
					for i := range input {
						input[i] = byte(37*i + n)
					}
					tb, inv, esc := RunBodyFuzz(prog, nil, input)
					c.R.Evals++
					c.R.States++
					c.R.Transitions++
					class := "pass"
					if tb.IsFail {
						class = "fail"
					} else if tb.IsSkip {
						class = "skip"
					}
					c.Outcome(fmt.Sprintf("%s %s %s", ctx, b, class), inv.Falsified())
					replay := map[string]any{"engine": "fuzz-behaviour", "ctx": ctx, "beh": b.String(), "input_hex": fmt.Sprintf("%x", input)}
					if esc != nil {
						c.Violate(Violation{Sig: fmt.Sprintf("C13 escaped-panic beh=%s ctx=%s", b, ctx), Detail: fmt.Sprintf("fuzz target crashed: %v", esc), Replay: replay})
						continue
					}
					if inv.Falsified() != (class == "fail") {
						c.Violate(Violation{Sig: fmt.Sprintf("C13 fail-iff-falsified beh=%s ctx=%s", b, ctx),
							Detail: fmt.Sprintf("%d input bytes: the test case signalled %v, the fuzz test was reported as %s (%s)", n, inv.Signalled, class, trunc(tb.ErrorText(), 120)), Replay: replay})
					}
				}
			}
		}
	}})
	// "never hangs": once the input is exhausted it stays exhausted, so the work still done after that point
	// is bounded by the nesting depth, not exponential in it. Counted, not timed: calls of the innermost
	// generator function (nested Custom generators through the MakeFuzz body) and draw attempts after the end
	// of the stream (Make for nested structs on a stream that ends at every position)
	units = append(units, Unit{Name: "C13/exhausted-input-under-nested-generators", Run: func(c *Ctx) {
		tb := NewTB("C13")
		tb.Quiet = true
		maxD := 8
		if !quick {
			maxD = 11
		}
		for d := 1; d <= maxD; d++ {
			calls := 0
			g := rapid.Custom(func(t *rapid.T) int { calls++; return int(rapid.Int8().Draw(t, "x")) })
			for i := 1; i < d; i++ {
				inner := g
				g = rapid.Custom(func(t *rapid.T) int { return inner.Draw(t, "g") })
			}
			for _, input := range [][]byte{nil, {1}, make([]byte, 8)} {
				calls = 0
				ftb := NewTB("C13")
				ftb.Quiet = true
				esc := Guard(func() { rapid.VerifCheckFuzz(ftb, func(t *rapid.T) { g.Draw(t, "g") }, input) })
				c.R.Evals++
				c.R.States++
				c.R.Transitions += int64(calls)
				c.Outcome(fmt.Sprintf("custom depth=%d len=%d calls=%d skip=%v", d, len(input), calls, ftb.IsSkip), true)
				if esc != nil || !ftb.IsSkip || ftb.IsFail {
					c.Violate(Violation{Sig: "C13 exhausted-input-not-skipped nesting=custom", Detail: fmt.Sprintf("%d nested Custom generators, input of %d bytes: skipped=%v failed=%v escaped=%v", d, len(input), ftb.IsSkip, ftb.IsFail, esc),
						Replay: map[string]any{"engine": "fuzz", "depth": d, "input": input}})
				}
				if calls > 5*d {
					c.Violate(Violation{Sig: "C13 work-after-exhaustion-exponential nesting=custom", Detail: fmt.Sprintf("%d nested Custom generators, input of %d bytes: the innermost function was called %d times before the target answered skip (5 per nesting level would be %d)", d, len(input), calls, 5*d),
						Replay: map[string]any{"engine": "fuzz", "depth": d, "input": input}, Devs: d})
					return
				}
			}
		}
		for d, mk := range c13NestedMakes() {
			g := mk()
			for cut := 0; cut <= 2; cut++ {
				src := NewSource(nil, cut, BaseZero)
				res := rapid.VerifRunSource(tb, src, false, func(t *rapid.T) { g.Draw(t, "v") })
				after := 0
				for _, dr := range src.Trace {
					if dr.Overrun {
						after++
					}
				}
				c.R.Evals++
				c.R.States++
				c.R.Transitions += int64(len(src.Trace))
				c.Outcome(fmt.Sprintf("make depth=%d cut=%d %s after=%d", d+1, cut, kindName(res.Kind), after), true)
				if after > 5*(d+2) {
					c.Violate(Violation{Sig: "C13 work-after-exhaustion-exponential nesting=make", Detail: fmt.Sprintf("Make for %d nested one-field structs on a stream that ends after %d draws: %d further draw attempts after the end", d+1, cut, after),
						Replay: map[string]any{"engine": "source", "depth": d + 1, "cut": cut}, Devs: d})
					return
				}
			}
		}
	}})
	// "never crashes": a recursive generator under a long input that says "go on" at every step. The nesting depth
	// is bounded by nothing but the length of the input, and Go's stack overflow is unrecoverable: probed in a
	// subprocess whose maximal stack is lowered to 1 MiB (with the default of 1 GiB the same happens at a few MiB of
	// input; the work before that is quadratic in the input, which is why the probe is scaled down)
	units = append(units, Unit{Name: "C13/long-input-into-a-recursive-generator", Run: func(c *Ctx) {
		self, _ := os.Executable()
		for _, gen := range []string{"deferred-list", "make-list"} {
			for _, kb := range []int{2, 16, 96} {
				out, err := exec.Command(self, "fuzzdeepprobe", gen, fmt.Sprint(kb)).CombinedOutput()
				c.R.Evals++
				c.R.States++
				c.R.Transitions++
				switch {
				case err == nil && strings.Contains(string(out), "outcome="):
					c.Outcome(gen+" "+strings.TrimSpace(string(out)), true)
				case crashKind(string(out)) != "":
					c.Outcome(fmt.Sprintf("%s %dKiB crash %s", gen, kb, crashKind(string(out))), true)
					c.Violate(Violation{Sig: "C13 fuzz-target-crashes generator=" + gen + " crash=" + crashKind(string(out)),
						Detail: fmt.Sprintf("the MakeFuzz body for a recursive generator (%s) on %d KiB of 0xff bytes took the process down (maximal stack lowered to 1 MiB):\n%s", gen, kb, trunc(string(out), 800)),
						Replay: map[string]any{"engine": "subprocess", "generator": gen, "kib": kb}, Devs: kb})
				default:
					c.R.HarnessErr = fmt.Sprintf("fuzzdeepprobe %s %d: %v: %s", gen, kb, err, trunc(string(out), 400))
					return
				}
			}
		}
	}})
	units = append(units, fuzzWrapUnit())
	return units
}

var _ = binary.LittleEndian

func init() {
	Register(&Check{
		ID:    "C13",
		Level: "model_checking",
		Rule: "E1 bitdfs answer sequences (depth/deviation bounds in the evidence) of the rejection-capable catalogue programs, each turned into byte strings: whole little-endian words with arbitrary high bits, the last word cut by 1..7 bytes, 3-byte tails, and the consumed prefix followed by 6 junk suffixes; " +
			"plus every behaviour (23 kinds x 4 contexts) on inputs of 0..40 bytes. Oracle: outcome class and draws of the MakeFuzz body = independent little-endian zero-padded word replay through the real buffer stream; fail iff falsified, skip iff invalid; no crash; deterministic; unconsumed bytes never matter. " +
			"distinct = distinct (class, draws); non-trivial = not skipped.",
		Assumptions: []string{"the exported MakeFuzz wrapper is bound to its body by the separate wrapper test (checks/fuzzwrap), which needs a real *testing.T"},
		Units:       c13Units,
		Budget:      map[string]time.Duration{"quick": 50 * time.Second, "thorough": 15 * time.Minute},
	})
}

type (
	nest1  struct{ V int8 }
	nest2  struct{ V nest1 }
	nest3  struct{ V nest2 }
	nest4  struct{ V nest3 }
	nest5  struct{ V nest4 }
	nest6  struct{ V nest5 }
	nest7  struct{ V nest6 }
	nest8  struct{ V nest7 }
	nest9  struct{ V nest8 }
	nest10 struct{ V nest9 }
)

func c13NestedMakes() []func() *rapid.Generator[any] {
	return []func() *rapid.Generator[any]{
		func() *rapid.Generator[any] { return rapid.Make[nest1]().AsAny() },
		func() *rapid.Generator[any] { return rapid.Make[nest2]().AsAny() },
		func() *rapid.Generator[any] { return rapid.Make[nest3]().AsAny() },
		func() *rapid.Generator[any] { return rapid.Make[nest4]().AsAny() },
		func() *rapid.Generator[any] { return rapid.Make[nest5]().AsAny() },
		func() *rapid.Generator[any] { return rapid.Make[nest6]().AsAny() },
		func() *rapid.Generator[any] { return rapid.Make[nest7]().AsAny() },
		func() *rapid.Generator[any] { return rapid.Make[nest8]().AsAny() },
	}
}

type c13Node struct {
	V    int8
	Next *c13Node
}

// FuzzDeepProbeMain (subprocess): the MakeFuzz body of a recursive generator on kb KiB of 0xff bytes.
func FuzzDeepProbeMain(gen, kbs string) {
	debug.SetMaxStack(1 << 20)
	var kb int
	fmt.Sscan(kbs, &kb)
	input := bytes.Repeat([]byte{0xff}, kb<<10)
	var prop func(t *rapid.T)
	switch gen {
	case "deferred-list":
		var list *rapid.Generator[*c13Node]
		list = rapid.Deferred(func() *rapid.Generator[*c13Node] {
			return rapid.OneOf(rapid.Just[*c13Node](nil), rapid.Custom(func(t *rapid.T) *c13Node {
				return &c13Node{V: rapid.Int8().Draw(t, "v"), Next: list.Draw(t, "next")}
			}))
		})
		prop = func(t *rapid.T) { list.Draw(t, "list") }
	default:
		g := rapid.Make[*c13Node]()
		prop = func(t *rapid.T) { g.Draw(t, "list") }
	}
	tb := NewTB("probe")
	tb.Quiet = true
	esc := Guard(func() { rapid.VerifCheckFuzz(tb, prop, input) })
	fmt.Printf("outcome=skip:%v fail:%v escaped:%v\n", tb.IsSkip, tb.IsFail, esc != nil)
}
