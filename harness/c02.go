package harness

// C02 - no falsification is lost: every failure signal fails the enclosing test.
// The full matrix failure kind x callback context x position, enumerated by E2 with one
// (quick) or two (thorough) deviations from an all-pass and an all-skip base run.

import (
	"flag"
	"fmt"
	"os"
	"os/exec"
	"pgregory.net/rapid"
	"strings"
	"time"
)

// two cleanups of one invocation: one falsifies, the other one skips or is rejected
var c02TwoCleanups = []Beh{BCleanupSkipCleanupPanic, BCleanupSkipCleanupFatal, BCleanupRejectCleanupPanic, BCleanupPanicCleanupSkip, BCleanupErrorfCleanupSkip, BCleanupPanicThenSkip, BCleanupPanicThenReject, BCleanupNilMapThenSkip, BCleanupErrorfCleanupSkipThenSkip, BErrorfThenPanic, BCleanupFatalThenPanic}

func c02Alphabet(ctx string) []Beh {
	switch ctx {
	case "custom-guarded", "custom2-guarded": // only what is signalled through the methods of T survives a recover() in user code
		return []Beh{BFatalA, BFatal, BFailNowC, BErrorf, BError, BFail, BCleanupErrorf, BCleanupFatal, BErrorfThenFatalA, BErrorEmpty, BErrorfReject, BCleanupErrorfSkip, BErrorfSkip, BErrorfThenPanic, BCleanupFatalThenPanic, BCleanupErrorfCleanupSkipThenSkip, BPass, BCleanupPass}
	case "body", "custom", "custom2":
		return append(append(append([]Beh{}, AllFalsifying...), c02TwoCleanups...), BSkip, BSkipNow, BSkipf, BPass, BCleanupPass, BCleanupSkip)
	default: // action, invariant: skipping there is C08's business
		return append(append(append([]Beh{}, AllFalsifying[:len(AllFalsifying)-2]...), c02TwoCleanups...), BPass, BCleanupPass)
	}
}

func c02Units(tier string, seed int64) []Unit {
	quick := tier != "thorough"
	var units []Unit
	type sc struct {
		ctx    string
		base   Beh
		checks int
		steps  int
	}
	var scs []sc
	for _, ctx := range []string{"body", "custom", "custom2", "action", "invariant", "custom-guarded", "custom2-guarded"} {
		for _, n := range []int{1, 5} {
			scs = append(scs, sc{ctx, BPass, n, 3})
			if ctx == "body" || ctx == "custom" {
				scs = append(scs, sc{ctx, BSkip, n, 3})
			}
		}
	}
	seeds := []uint64{uint64(seed)*97 + 3, uint64(seed)*97 + 1000003}
	if !quick {
		seeds = append(seeds, uint64(seed)*97+17, uint64(seed)*97+424242)
	}
	for _, s := range scs {
		for _, sd := range seeds {
			s, sd := s, sd
			units = append(units, Unit{Name: fmt.Sprintf("C02/ctx=%s/base=%s/checks=%d/seed=%d", s.ctx, s.base, s.checks, sd), Run: func(c *Ctx) {
				prog := progUniqueCtx(s.ctx, s.base)
				cfg := Config{Checks: s.checks, Seed: sd, ShrinkMS: 3, NoFailFile: true, Steps: s.steps, Name: "TestC02"}
				d := &LazyDFS{Prog: prog, Cfg: cfg, Alphabet: c02Alphabet, MaxDev: 1, OnlyUpToFirstFalsified: true}
				d.P = s.checks + 2
				if s.base == BSkip {
					d.P = 10*s.checks + 1
					if quick && d.P > 14 {
						d.P = 14
					}
				}
				if s.ctx == "action" || s.ctx == "invariant" {
					d.P = 4 * s.checks
					if d.P > 10 {
						d.P = 10
					}
				}
				if !quick {
					d.MaxDev = 2
					d.MaxRuns = 60000
				}
				c.R.Bounds = fmt.Sprintf("deviations<=%d over the first %d distinct inputs", d.MaxDev, d.P)
				d.Explore(c, func(log *RunLog, assign []KV, devs int) {
					env := log.Env
					v := log.Verdict()
					var sig *Invocation
					for _, inv := range env.Invs {
						if inv.Falsified() {
							sig = inv
							break
						}
					}
					out := fmt.Sprintf("%s failed=%v signalled=%v", v.Class, log.TB.IsFail, sig != nil)
					if sig != nil {
						out += fmt.Sprintf(" kind=%s at=%d ctx=%s", sig.Signalled[0], sig.Idx, s.ctx)
					}
					c.Outcome(out, sig != nil)
					replay := map[string]any{"program": prog.Name, "assign": assign, "config": cfg.String()}
					if log.Escaped != nil {
						c.Violate(Violation{Sig: "C02 escaped-panic ctx=" + s.ctx, Detail: fmt.Sprintf("Check let a panic escape: %v\n%s", log.Escaped, SummarizeInvs(env.Invs, 20)), Replay: replay, Devs: devs})
						return
					}
					if sig != nil && !log.TB.IsFail {
						c.Violate(Violation{Sig: fmt.Sprintf("C02 lost-falsification kind=%s ctx=%s", sig.Signalled[0], s.ctx),
							Detail: fmt.Sprintf("test case #%d signalled %v in context %s but Check did not fail the test (TB: %s).\ninvocations: %s", sig.Idx, sig.Signalled, s.ctx, v.Class, SummarizeInvs(env.Invs, 20)),
							Replay: replay, Devs: devs})
					}
					if sig == nil && log.TB.IsFail && v.Class != "only-generated" {
						c.Violate(Violation{Sig: "C02 failed-without-falsification ctx=" + s.ctx,
							Detail: fmt.Sprintf("no test case signalled a failure (only pass/skip) but the test was failed: %s %q\ninvocations: %s", v.Class, trunc(v.ErrText, 300), SummarizeInvs(env.Invs, 20)),
							Replay: replay, Devs: devs})
					}
				})
			}})
		}
	}
	// a non-fatal signal that lands BETWEEN two test cases: a goroutine started by the k-th test case calls
	// Errorf/Error/Fail right after that case has been counted as passed (the seam is the verbose log line
	// "[rapid] test #k OK" on the TB, so the position is exact, not a matter of timing). The test must fail.
	units = append(units, Unit{Name: "C02/late-signal-between-test-cases", Run: func(c *Ctx) {
		for _, kind := range []string{"Errorf", "Error()", "Fail"} {
			for _, k := range []int{1, 2, 5} {
				for _, checks := range []int{6, 20} {
					setFlags(Config{Checks: checks, Seed: 11 + uint64(k), ShrinkMS: -1, NoFailFile: true, Verbose: true})
					release, done := make(chan struct{}), make(chan struct{})
					htb := &hookTB{FakeTB: NewTB("TestLateSignal")}
					htb.hook = func(msg string) {
						if strings.HasPrefix(msg, fmt.Sprintf("[rapid] test #%d OK", k)) {
							close(release)
							<-done
						}
					}
					n, signalled := 0, false
					esc := Guard(func() {
						rapid.Check(htb, func(t *rapid.T) {
							n++
							rapid.Int().Draw(t, "x")
							if n == k {
								go func() {
									defer close(done)
									<-release
									signalled = true
									switch kind {
									case "Errorf":
										t.Errorf("late signal from the goroutine of test case %d", k)
									case "Error()":
										t.Error()
									default:
										t.Fail()
									}
								}()
							}
						})
					})
					flag.Set("rapid.v", "false")
					c.R.Evals++
					c.R.States++
					c.R.Transitions += int64(n)
					c.Outcome(fmt.Sprintf("late %s k=%d checks=%d failed=%v invocations=%d", kind, k, checks, htb.IsFail, n), true)
					if esc != nil {
						c.Violate(Violation{Sig: "C02 late-signal escaped-panic", Detail: fmt.Sprint(esc)})
					} else if !signalled {
						c.Violate(Violation{Sig: "C02 late-signal harness-never-signalled", Detail: fmt.Sprintf("kind=%s k=%d: the seam line was not logged", kind, k)})
					} else if !htb.IsFail {
						c.Violate(Violation{Sig: "C02 lost-falsification kind=" + kind + " ctx=goroutine-between-test-cases",
							Detail: fmt.Sprintf("test case %d started a goroutine that called %s after the case was counted and before the next one began; Check passed: %s", k, kind, trunc(htb.LogText(), 400)),
							Replay: map[string]any{"engine": "late-signal", "kind": kind, "k": k, "checks": checks}})
					}
				}
			}
		}
	}})
	// the same matrix cell "panic(nil)" under GODEBUG=panicnil=1 - the default of every main module whose go.mod
	// says go 1.20 or older (rapid's own included): recover() then returns nil for it. Run in a subprocess,
	// because the setting is read when the process starts.
	units = append(units, Unit{Name: "C02/panic(nil) under GODEBUG=panicnil=1", Run: func(c *Ctx) {
		self, _ := os.Executable()
		cmd := exec.Command(self, "panicnilprobe")
		cmd.Env = append(os.Environ(), "GODEBUG=panicnil=1")
		out, err := cmd.CombinedOutput()
		if err != nil {
			c.R.HarnessErr = fmt.Sprintf("panicnilprobe: %v: %s", err, trunc(string(out), 600))
			return
		}
		n := 0
		for _, ln := range strings.Split(strings.TrimSpace(string(out)), "\n") {
			f := strings.Fields(ln)
			if len(f) != 4 || f[0] != "probe" {
				continue
			}
			n++
			c.R.Evals++
			c.R.States++
			c.R.Transitions++
			c.Outcome(ln, true)
			if f[2] != "failed=true" || f[3] == "class=only-generated" || f[3] == "class=ok" {
				c.Violate(Violation{Sig: "C02 lost-falsification kind=panic(nil) ctx=" + f[1] + " godebug=panicnil=1",
					Detail: "every test case executes panic(nil) in context " + f[1] + ", the process runs with GODEBUG=panicnil=1: Check did not fail the test (" + f[3] + ")",
					Replay: map[string]any{"engine": "subprocess", "godebug": "panicnil=1", "ctx": f[1]}})
			}
		}
		if n != 9 {
			c.R.HarnessErr = "panicnilprobe printed " + fmt.Sprint(n) + " results, want 9: " + trunc(string(out), 400)
		}
	}})
	return units
}

// PanicNilProbeMain (subprocess, started with GODEBUG=panicnil=1): one Check per callback context in which
// every test case executes panic(nil).
func PanicNilProbeMain() {
	d, _ := os.MkdirTemp("", "panicnil-")
	os.Chdir(d)
	defer os.RemoveAll(d)
	for _, ctx := range []string{"body", "custom", "custom2", "action", "invariant"} {
		prog := progUniqueCtx(ctx, BPanicNil)
		env := NewEnv(nil, prog.Base)
		log := RunCheck(prog, env, Config{Checks: 3, Seed: 5, ShrinkMS: 3, NoFailFile: true, Steps: 3, Name: "TestPanicNil"})
		fmt.Printf("probe %s failed=%v class=%s\n", ctx, log.TB.IsFail, log.Verdict().Class)
	}
	// and from a Cleanup function of the property
	prog := &LazyProgram{Name: "cleanup-panics-nil", Base: func(string, string) Beh { return BPass }, Body: func(t *rapid.T, e *Env) {
		x := rapid.Uint64().Draw(t, "x")
		e.cur.Draws = fmt.Sprint(x)
		e.cur.Signalled = append(e.cur.Signalled, BPanicNil)
		t.Cleanup(func() { var nothing any; panic(nothing) })
	}}
	env := NewEnv(nil, prog.Base)
	log := RunCheck(prog, env, Config{Checks: 3, Seed: 5, ShrinkMS: 3, NoFailFile: true, Name: "TestPanicNil"})
	fmt.Printf("probe %s failed=%v class=%s\n", "cleanup", log.TB.IsFail, log.Verdict().Class)
	// a Cleanup function that executes panic(nil) after a newer one has skipped
	prog2 := &LazyProgram{Name: "cleanup-panics-nil-after-a-skip", Base: func(string, string) Beh { return BPass }, Body: func(t *rapid.T, e *Env) {
		x := rapid.Uint64().Draw(t, "x")
		e.cur.Draws = fmt.Sprint(x)
		e.cur.Signalled = append(e.cur.Signalled, BPanicNil)
		t.Cleanup(func() { var nothing any; panic(nothing) })
		t.Cleanup(func() { t.Skip("the newer cleanup skips") })
	}}
	env2 := NewEnv(nil, prog2.Base)
	log2 := RunCheck(prog2, env2, Config{Checks: 3, Seed: 5, ShrinkMS: 3, NoFailFile: true, Name: "TestPanicNil"})
	fmt.Printf("probe %s failed=%v class=%s\n", "cleanup-after-skip", log2.TB.IsFail, log2.Verdict().Class)
	// a Cleanup function registered by a Custom generator function executes panic(nil)
	prog3 := &LazyProgram{Name: "custom-cleanup-panics-nil", Base: func(string, string) Beh { return BPass }, Body: func(t *rapid.T, e *Env) {
		g := rapid.Custom(func(it *rapid.T) uint64 {
			x := rapid.Uint64().Draw(it, "x")
			it.Cleanup(func() { var nothing any; panic(nothing) })
			return x
		})
		e.cur.Signalled = append(e.cur.Signalled, BPanicNil)
		e.cur.Draws = fmt.Sprint(g.Draw(t, "v"))
	}}
	env3 := NewEnv(nil, prog3.Base)
	log3 := RunCheck(prog3, env3, Config{Checks: 3, Seed: 5, ShrinkMS: 3, NoFailFile: true, Name: "TestPanicNil"})
	fmt.Printf("probe %s failed=%v class=%s\n", "custom-cleanup", log3.TB.IsFail, log3.Verdict().Class)
	// Example: a predicate that executes panic(nil) is not a value
	exOK := func() (ok bool) {
		defer func() { ok = recover() != nil || ok }()
		v := rapid.IntRange(5, 10).Filter(func(int) bool { var nothing any; panic(nothing) }).Example(1)
		return v >= 5 && v <= 10
	}()
	fmt.Printf("probe %s failed=%v class=%s\n", "example-filter", exOK, "n/a")
}

func init() {
	Register(&Check{
		ID:    "C02",
		Level: "model_checking",
		Rule: "E2 lazyprop: failure kind (19 kinds incl. panic values, runtime errors, Fatal*/FailNow, Error*/Fail, from cleanups, nested cleanups and joined goroutines) x context (body, Custom, nested Custom, Repeat action, Repeat invariant) " +
			"x position (every one of the first P distinct inputs, from an all-pass and an all-skip base run) x checks {1,5} x seeds; one deviation (quick) / two (thorough). Oracle: TB failed <=> some executed test case signalled. " +
			"distinct = distinct (verdict class, failed, kind, position, ctx); non-trivial = a failure signal was raised.",
		Assumptions: []string{"harness module is go >= 1.21, so panic(nil) surfaces as *runtime.PanicNilError", "goroutines are joined before the property returns"},
		Units:       c02Units,
		Budget:      map[string]time.Duration{"quick": 50 * time.Second, "thorough": 15 * time.Minute},
	})
}

// hookTB is a FakeTB whose Logf also calls a hook with the formatted line (a deterministic seam between test cases).
type hookTB struct {
	*FakeTB
	hook func(string)
}

func (h *hookTB) Logf(format string, args ...any) {
	msg := fmt.Sprintf(format, args...)
	h.FakeTB.Logf("%s", msg)
	if h.hook != nil {
		h.hook(msg)
	}
}
