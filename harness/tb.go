package harness

import (
	"fmt"
	"strings"
	"sync"
)

// FakeTB implements rapid.TB and records everything rapid tells the test framework.
type FakeTB struct {
	TName   string
	Events  []TBEvent
	IsFail  bool
	IsSkip  bool
	Stopped bool       // FailNow / SkipNow called
	Quiet   bool       // do not store Log events
	mu      sync.Mutex // like testing.T, the fake TB may be used from several goroutines
}

type TBEvent struct {
	Kind string // log, error, fatal, skip, failnow, skipnow, fail
	Text string
}

type tbStop struct{}
type tbSkip struct{}

func NewTB(name string) *FakeTB { return &FakeTB{TName: name} }

func (t *FakeTB) ev(kind, text string) {
	t.mu.Lock()
	t.Events = append(t.Events, TBEvent{kind, text})
	t.mu.Unlock()
}

func (t *FakeTB) set(fail, skip, stop bool) {
	t.mu.Lock()
	t.IsFail = t.IsFail || fail
	t.IsSkip = t.IsSkip || skip
	t.Stopped = t.Stopped || stop
	t.mu.Unlock()
}

func (t *FakeTB) Helper()      {}
func (t *FakeTB) Name() string { return t.TName }
func (t *FakeTB) Logf(format string, args ...any) {
	if !t.Quiet {
		t.ev("log", fmt.Sprintf(format, args...))
	}
}
func (t *FakeTB) Log(args ...any) {
	if !t.Quiet {
		t.ev("log", fmt.Sprintln(args...))
	}
}
func (t *FakeTB) Skipf(format string, args ...any) {
	t.ev("skip", fmt.Sprintf(format, args...))
	t.SkipNow()
}
func (t *FakeTB) Skip(args ...any) { t.ev("skip", fmt.Sprintln(args...)); t.SkipNow() }
func (t *FakeTB) SkipNow() {
	t.set(false, true, true)
	t.ev("skipnow", "")
	panic(tbSkip{})
}
func (t *FakeTB) Errorf(format string, args ...any) {
	t.ev("error", fmt.Sprintf(format, args...))
	t.set(true, false, false)
}
func (t *FakeTB) Error(args ...any) { t.ev("error", fmt.Sprintln(args...)); t.set(true, false, false) }
func (t *FakeTB) Fatalf(format string, args ...any) {
	t.ev("fatal", fmt.Sprintf(format, args...))
	t.set(true, false, false)
	t.FailNow()
}
func (t *FakeTB) Fatal(args ...any) {
	t.ev("fatal", fmt.Sprintln(args...))
	t.set(true, false, false)
	t.FailNow()
}
func (t *FakeTB) FailNow() {
	t.set(true, false, true)
	t.ev("failnow", "")
	panic(tbStop{})
}
func (t *FakeTB) Fail() { t.set(true, false, false); t.ev("fail", "") }
func (t *FakeTB) Failed() bool {
	t.mu.Lock()
	defer t.mu.Unlock()
	return t.IsFail
}

// Text returns all error/fatal texts joined.
func (t *FakeTB) ErrorText() string {
	var b strings.Builder
	for _, e := range t.Events {
		if e.Kind == "error" || e.Kind == "fatal" {
			b.WriteString(e.Text)
			b.WriteByte('\n')
		}
	}
	return b.String()
}

func (t *FakeTB) LogText() string {
	var b strings.Builder
	for _, e := range t.Events {
		if e.Kind == "log" {
			b.WriteString(e.Text)
			b.WriteByte('\n')
		}
	}
	return b.String()
}

// Guard runs f and absorbs the FakeTB's own FailNow/SkipNow sentinels.
// Any other panic is returned (an escaped panic).
func Guard(f func()) (escaped any) {
	defer func() {
		if r := recover(); r != nil {
			switch r.(type) {
			case tbStop, tbSkip:
			default:
				escaped = r
			}
		}
	}()
	f()
	return nil
}
