package harness

// A generator value is an immutable specification also for the combinators that DERIVE a generator from it:
// building a second generator from the same base (another Filter, a Map, a collection, a OneOf) must not change
// what a sibling built earlier draws. The bases are chains of 0..12 Filter/Map steps (slices that grow by append
// share a backing array exactly when the length passes certain sizes), collections and key functions made by one
// function literal with different captured values.

import (
	"fmt"
	"math"
	"strings"

	"pgregory.net/rapid"
)

func siblingsUnit(id string) Unit {
	return Unit{Name: id + "/siblings-derived-from-one-base", Run: func(c *Ctx) {
		tb := NewTB(id)
		tb.Quiet = true
		draws := func(g *rapid.Generator[int], n int) string {
			var out []string
			for sd := uint64(1); sd <= uint64(n); sd++ {
				v, ok := 0, false
				res := rapid.VerifRunSeed(tb, sd*7919, false, func(t *rapid.T) { v = g.Draw(t, "v"); ok = true })
				c.R.Evals++
				if ok && res.Kind == rapid.VerifOK {
					out = append(out, fmt.Sprint(v))
				} else {
					out = append(out, kindName(res.Kind))
				}
			}
			return strings.Join(out, ",")
		}
		allSatisfy := func(ds string, pred func(int) bool) bool {
			for _, f := range strings.Split(ds, ",") {
				var v int
				if _, err := fmt.Sscan(f, &v); err == nil && !pred(v) {
					return false
				}
			}
			return true
		}
		notEq := func(k int) func(int) bool { return func(v int) bool { return v != k } } // one literal, different captures
		for L := 0; L <= 12; L++ {
			for _, kind := range []string{"Filter", "Map"} {
				base := rapid.IntRange(0, 1000)
				for i := 0; i < L; i++ {
					if kind == "Filter" {
						base = base.Filter(notEq(i))
					} else {
						base = rapid.Map(base, func(v int) int { return v })
					}
				}
				even := base.Filter(func(v int) bool { return v%2 == 0 })
				before := draws(even, 12)
				// siblings built afterwards from the same base
				odd := base.Filter(func(v int) bool { return v%2 == 1 })
				big := base.Filter(func(v int) bool { return v >= 500 })
				_ = rapid.Map(base, func(v int) int { return -v })
				_ = rapid.SliceOfN(base, 1, 2)
				_ = rapid.OneOf(base, rapid.Just(-1))
				_ = base.AsAny()
				after := draws(even, 12)
				oddDraws, bigDraws := draws(odd, 12), draws(big, 12)
				c.R.States++
				c.Outcome(fmt.Sprintf("%s chain %d: %s", kind, L, trunc(before, 40)), true)
				replay := map[string]any{"engine": "seed", "chain": L, "kind": kind}
				if before != after {
					c.Violate(Violation{Sig: id + " sibling-changes-an-earlier-generator base=" + kind + "-chain", Detail: fmt.Sprintf("base = IntRange(0,1000) with %d %s steps; even := base.Filter(even) drew %s; after base.Filter(odd), base.Filter(>=500), Map, SliceOfN, OneOf, AsAny were built from the same base it draws %s", L, kind, before, after), Replay: replay})
				}
				if !allSatisfy(after, func(v int) bool { return v%2 == 0 }) || !allSatisfy(oddDraws, func(v int) bool { return v%2 == 1 }) || !allSatisfy(bigDraws, func(v int) bool { return v >= 500 }) {
					c.Violate(Violation{Sig: id + " sibling-draws-with-another-sibling's-predicate base=" + kind + "-chain", Detail: fmt.Sprintf("chain of %d: even %s; odd %s; >=500 %s", L, after, oddDraws, bigDraws), Replay: replay})
				}
			}
		}
		// key functions that are closures of one literal
		mod := func(m int) func(int) int { return func(v int) int { return v % m } }
		val := rapid.IntRange(0, 99)
		for _, lim := range [][2]int{{1, 20}, {0, -1}} {
			var gens []*rapid.Generator[map[int]int]
			var slices []*rapid.Generator[[]int]
			ms := []int{10, 3, 50, 7}
			for _, m := range ms {
				gens = append(gens, rapid.MapOfNValues(val, lim[0], lim[1], mod(m)))
				slices = append(slices, rapid.SliceOfNDistinct(val, lim[0], lim[1], mod(m)))
			}
			for i, m := range ms {
				for sd := uint64(1); sd <= 12; sd++ {
					var mp map[int]int
					var sl []int
					rapid.VerifRunSeed(tb, sd*31, false, func(t *rapid.T) { mp = gens[i].Draw(t, "m"); sl = slices[i].Draw(t, "s") })
					c.R.Evals++
					c.R.States++
					seen := map[int]bool{}
					for _, v := range sl {
						if seen[v%m] {
							c.Violate(Violation{Sig: id + " closure-key-function-mixed-up what=SliceOfNDistinct", Detail: fmt.Sprintf("SliceOfNDistinct(IntRange(0,99),%d,%d,mod %d) built next to siblings with other moduli drew %v", lim[0], lim[1], m, sl)})
						}
						seen[v%m] = true
					}
					for k, v := range mp {
						if k != v%m {
							c.Violate(Violation{Sig: id + " closure-key-function-mixed-up what=MapOfNValues", Detail: fmt.Sprintf("MapOfNValues(IntRange(0,99),%d,%d,mod %d) built next to siblings with other moduli drew %v", lim[0], lim[1], m, mp)})
						}
					}
				}
			}
		}
	}}
}

// longLivedUnit: a generator value that has been used for many test cases draws, for a given seed, exactly what a
// freshly built one draws (nothing of an earlier draw stays behind in the generator value: key sets, scratch buffers,
// counters). Every catalogue program, plus distinct collections whose key function yields NaN for some elements.
func longLivedUnit(id string, quick bool) Unit {
	return Unit{Name: id + "/long-lived-generator-value-vs-fresh-one", Run: func(c *Ctx) {
		tb := NewTB(id)
		tb.Quiet = true
		progs := append(AllProgs(), FailingProgs()...)
		sqrtKey := func(v int) float64 { return math.Sqrt(float64(v)) } // NaN for negative elements: never equal to itself
		progs = append(progs,
			one("SliceOfNDistinct(IntRange(-4,4),0,8,sqrt)", "coll rej", func() *rapid.Generator[[]int] { return rapid.SliceOfNDistinct(rapid.IntRange(-4, 4), 0, 8, sqrtKey) }, func(v []int) string {
				seen := map[int]bool{}
				for _, x := range v {
					if x >= 0 && seen[x] {
						return "duplicate key"
					}
					seen[x] = true
				}
				return ""
			}),
			one("MapOfNValues(IntRange(-4,4),0,8,sqrt)", "coll rej", func() *rapid.Generator[map[float64]int] {
				return rapid.MapOfNValues(rapid.IntRange(-4, 4), 0, 8, sqrtKey)
			}, nil),
			one("SliceOfNDistinct(Float64Range(-1,1),0,6,sqrt)", "coll rej", func() *rapid.Generator[[]float64] {
				return rapid.SliceOfNDistinct(rapid.Float64Range(-1, 1), 0, 6, func(f float64) float64 { return math.Sqrt(f) })
			}, nil))
		n := 24
		if !quick {
			n = 200
		}
		for _, p := range progs {
			long := func() (b func(t *rapid.T, r *Rec)) {
				defer func() { recover() }()
				return p.New()
			}()
			if long == nil {
				continue // a constructor that panics is C03's business
			}
			for sd := uint64(1); sd <= uint64(n); sd++ {
				seedv := sd*0x9e3779b97f4a7c15 + 3
				var fresh func(t *rapid.T, r *Rec)
				func() {
					defer func() { recover() }()
					fresh = p.New()
				}()
				if fresh == nil {
					break
				}
				of, rf := runWith(fresh, func(prop func(*rapid.T)) rapid.VerifResult { return rapid.VerifRunSeed(tb, seedv, false, prop) })
				ol, rl := runWith(long, func(prop func(*rapid.T)) rapid.VerifResult { return rapid.VerifRunSeed(tb, seedv, false, prop) })
				c.R.Evals += 2
				c.R.States++
				if sd == 1 {
					c.Outcome(p.Name+" "+trunc(of.draws, 30), true)
				}
				if of.draws != ol.draws || of.res.Kind != ol.res.Kind || rf.Bad != rl.Bad {
					c.Violate(Violation{Sig: id + " long-lived-generator-draws-differently prog=" + p.Name,
						Detail: fmt.Sprintf("seed %d: a freshly built %s draws %s (%s) %s; the same expression built once and used for %d earlier test cases draws %s (%s) %s", seedv, p.Name, of.draws, kindName(of.res.Kind), rf.Bad, sd-1, ol.draws, kindName(ol.res.Kind), rl.Bad),
						Replay: map[string]any{"engine": "seed", "program": p.Name, "seed": seedv, "earlier_cases": sd - 1}})
					break
				}
			}
		}
	}}
}
