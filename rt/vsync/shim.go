package vsync

import (
	"fmt"
	"sync"
)

// Shim objects are epoch-stamped: state left behind by an earlier execution (the process-wide
// caches of rapid outlive executions) is discarded on first touch in a new one.

type Locker = sync.Locker

// ---------------------------------------------------------------- Mutex / RWMutex

type RWMutex struct {
	real    sync.RWMutex
	epoch   int
	writer  bool
	readers int
	vcW     []int // released by Unlock
	vcR     []int // joined by RUnlock
}

func (m *RWMutex) touch() {
	if m.epoch != s.epoch {
		m.epoch, m.writer, m.readers, m.vcW, m.vcR = s.epoch, false, 0, nil, nil
	}
}

// writerWaiting: some other thread's pending operation is Lock on m (Go blocks new readers then).
func (m *RWMutex) writerWaiting(self *thread) bool {
	for _, t := range s.threads {
		if t != self && !t.done && t.what == m.lockName() && t.enabled != nil {
			return true
		}
	}
	return false
}

func (m *RWMutex) lockName() string { return fmt.Sprintf("Lock %p", m) }

func (m *RWMutex) Lock() {
	if s == nil {
		m.real.Lock()
		return
	}
	m.touch()
	point(m.lockName(), func() bool { m.touch(); return !m.writer && m.readers == 0 })
	m.writer = true
	t := s.cur
	t.acquire(m.vcW)
	t.acquire(m.vcR)
}

func (m *RWMutex) Unlock() {
	if s == nil {
		m.real.Unlock()
		return
	}
	m.touch()
	point(fmt.Sprintf("Unlock %p", m), nil)
	if !m.writer {
		panic("vsync: Unlock of unlocked RWMutex")
	}
	m.writer = false
	s.cur.release(&m.vcW)
	m.vcR = nil
}

func (m *RWMutex) RLock() {
	if s == nil {
		m.real.RLock()
		return
	}
	m.touch()
	self := s.cur
	point(fmt.Sprintf("RLock %p", m), func() bool { m.touch(); return !m.writer && !m.writerWaiting(self) })
	m.readers++
	s.cur.acquire(m.vcW)
}

func (m *RWMutex) RUnlock() {
	if s == nil {
		m.real.RUnlock()
		return
	}
	m.touch()
	point(fmt.Sprintf("RUnlock %p", m), nil)
	if m.readers <= 0 {
		panic("vsync: RUnlock of unlocked RWMutex")
	}
	m.readers--
	joinVC(&m.vcR, s.cur.vc)
	s.cur.tick()
}

func (m *RWMutex) TryLock() bool {
	if s == nil {
		return m.real.TryLock()
	}
	m.touch()
	point(fmt.Sprintf("TryLock %p", m), nil)
	if m.writer || m.readers > 0 {
		return false
	}
	m.writer = true
	s.cur.acquire(m.vcW)
	s.cur.acquire(m.vcR)
	return true
}

type Mutex struct{ rw RWMutex }

func (m *Mutex) Lock()         { m.rw.Lock() }
func (m *Mutex) Unlock()       { m.rw.Unlock() }
func (m *Mutex) TryLock() bool { return m.rw.TryLock() }

// ---------------------------------------------------------------- Once

type Once struct {
	real    sync.Once
	epoch   int
	done    bool
	running bool
	vc      []int
	// doneBefore: completed outside any execution (or in an earlier one): stays done
	doneEver bool
}

func (o *Once) Do(f func()) {
	if s == nil {
		o.real.Do(func() { f(); o.doneEver = true })
		return
	}
	if o.epoch != s.epoch {
		o.epoch, o.done, o.running, o.vc = s.epoch, o.doneEver, false, nil
	}
	if o.done {
		// partial-order reduction: Do on a completed Once only reads a flag that never changes again,
		// so it commutes with every other operation and need not be a scheduling point
		s.cur.acquire(o.vc)
		return
	}
	point(fmt.Sprintf("Once.Do %p", o), func() bool { return !o.running })
	if o.done {
		s.cur.acquire(o.vc)
		return
	}
	o.running = true
	defer func() {
		o.running = false
		o.done = true
		o.doneEver = true
		s.cur.release(&o.vc)
	}()
	f()
}

// ---------------------------------------------------------------- Map

type mapEntry struct {
	val any
	vc  []int
}

type Map struct {
	real  sync.Map
	epoch int
	m     map[any]*mapEntry
}

// touch: on first use in an execution, import what the real map holds (stored outside executions)
func (m *Map) touch() {
	if m.epoch != s.epoch {
		m.epoch = s.epoch
		m.m = map[any]*mapEntry{}
		m.real.Range(func(k, v any) bool { m.m[k] = &mapEntry{val: v}; return true })
	}
}

func (m *Map) Load(key any) (any, bool) {
	if s == nil {
		return m.real.Load(key)
	}
	m.touch()
	point(fmt.Sprintf("Map.Load %p", m), nil)
	e, ok := m.m[key]
	if !ok {
		return nil, false
	}
	s.cur.acquire(e.vc)
	return e.val, true
}

func (m *Map) Store(key, value any) {
	if s == nil {
		m.real.Store(key, value)
		return
	}
	m.touch()
	point(fmt.Sprintf("Map.Store %p", m), nil)
	e := &mapEntry{val: value}
	s.cur.release(&e.vc)
	m.m[key] = e
}

func (m *Map) LoadOrStore(key, value any) (any, bool) {
	if s == nil {
		return m.real.LoadOrStore(key, value)
	}
	m.touch()
	point(fmt.Sprintf("Map.LoadOrStore %p", m), nil)
	if e, ok := m.m[key]; ok {
		s.cur.acquire(e.vc)
		return e.val, true
	}
	e := &mapEntry{val: value}
	s.cur.release(&e.vc)
	m.m[key] = e
	return value, false
}

func (m *Map) Delete(key any) {
	if s == nil {
		m.real.Delete(key)
		return
	}
	m.touch()
	point(fmt.Sprintf("Map.Delete %p", m), nil)
	delete(m.m, key)
}

func (m *Map) Range(f func(key, value any) bool) {
	if s == nil {
		m.real.Range(f)
		return
	}
	m.touch()
	point(fmt.Sprintf("Map.Range %p", m), nil)
	for k, e := range m.m {
		s.cur.acquire(e.vc)
		if !f(k, e.val) {
			return
		}
	}
}

// ---------------------------------------------------------------- WaitGroup (for harness bodies)

type WaitGroup struct {
	real  sync.WaitGroup
	epoch int
	n     int
	vc    []int
}

func (w *WaitGroup) touch() {
	if w.epoch != s.epoch {
		w.epoch, w.n, w.vc = s.epoch, 0, nil
	}
}

func (w *WaitGroup) Add(d int) {
	if s == nil {
		w.real.Add(d)
		return
	}
	w.touch()
	w.n += d
	if d < 0 {
		joinVC(&w.vc, s.cur.vc)
		s.cur.tick()
	}
}
func (w *WaitGroup) Done() {
	if s == nil {
		w.real.Done()
		return
	}
	w.touch()
	point(fmt.Sprintf("WaitGroup.Done %p", w), nil)
	w.Add(-1)
}
func (w *WaitGroup) Wait() {
	if s == nil {
		w.real.Wait()
		return
	}
	w.touch()
	point(fmt.Sprintf("WaitGroup.Wait %p", w), func() bool { w.touch(); return w.n <= 0 })
	s.cur.acquire(w.vc)
}

// ---------------------------------------------------------------- atomic cell (used by vatomic)

type AtomicCell struct {
	epoch int
	val   any
	set   bool
	vc    []int
}

func (c *AtomicCell) touch(init any) {
	if c.epoch != s.epoch {
		c.epoch, c.val, c.set, c.vc = s.epoch, init, true, nil
	}
}

func (c *AtomicCell) Load(id any, init any) any {
	c.touch(init)
	point(fmt.Sprintf("atomic.Load %p", id), nil)
	s.cur.acquire(c.vc)
	return c.val
}

func (c *AtomicCell) Store(id any, init any, v any) {
	c.touch(init)
	point(fmt.Sprintf("atomic.Store %p", id), nil)
	c.val = v
	s.cur.release(&c.vc)
}

func (c *AtomicCell) CAS(id any, init, old, new any) bool {
	c.touch(init)
	point(fmt.Sprintf("atomic.CAS %p", id), nil)
	s.cur.acquire(c.vc)
	if c.val != old {
		return false
	}
	c.val = new
	s.cur.release(&c.vc)
	return true
}
