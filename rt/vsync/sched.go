// Package vsync is substituted for package sync in the instrumented copy of rapid
// (rule r3) and holds the cooperative scheduler and the happens-before race detector
// of engine E3. When no exploration is active every type behaves like its sync
// counterpart, so the same binary runs ordinary code unchanged.
//
// This package must stay within Go 1.18 (it is compiled as part of module rapid).
package vsync

import (
	"fmt"
	"runtime"
	"sort"
	"strings"
	"sync"
	"unsafe"
)

// ---------------------------------------------------------------- scheduler

type opKind int

const (
	opStart opKind = iota
	opLock
	opUnlock
	opRLock
	opRUnlock
	opOnce
	opOnceDone
	opMap
	opAtomic
	opJoin
	opYield
)

type thread struct {
	id      int
	wake    chan struct{}
	enabled func() bool // pending operation's guard (nil = always enabled)
	what    string      // pending operation, for traces
	done    bool
	vc      []int
	parked  bool
}

// Point is one scheduling decision.
type Point struct {
	Enabled []int  // canonical order: running thread first if still enabled, then ascending ids
	Chosen  int    // index into Enabled
	Running int    // thread that ran before this point (-1 at the start)
	StillEn bool   // the running thread was still enabled
	What    string // the operation the chosen thread performs
}

// Race is one unordered conflicting access pair.
type Race struct {
	A, B string // "R site" / "W site", lexicographically ordered
}

// Exec is the record of one execution.
type Exec struct {
	Points   []Point
	Races    map[Race]int
	Deadlock string
	Diverged string
	Steps    int
}

type sched struct {
	mu        sync.Mutex // protects nothing across controlled threads (one runs at a time); used for handoff only
	threads   []*thread
	cur       *thread
	yield     chan *thread // a controlled thread reports "I am at a point" (or finished)
	prefix    []int
	exec      *Exec
	epoch     int
	shadow    map[uintptr]*shadowCell
	mapShadow map[uintptr]*shadowCell
	maxSteps  int
}

var s *sched

// Active reports whether an exploration execution is in progress.
func Active() bool { return s != nil }

func me() *thread { return s.cur }

// point publishes the pending operation of the running thread and waits until the scheduler resumes it.
func point(what string, enabled func() bool) {
	t := s.cur
	t.what = what
	t.enabled = enabled
	s.yield <- t
	<-t.wake
	t.enabled = nil
}

// Go starts a controlled thread (only inside an execution; otherwise a plain goroutine).
func Go(f func()) *Handle {
	if s == nil {
		h := &Handle{realDone: make(chan struct{})}
		go func() { defer close(h.realDone); f() }()
		return h
	}
	parent := s.cur
	t := &thread{id: len(s.threads), wake: make(chan struct{}), vc: append([]int(nil), parent.vc...)}
	for len(t.vc) <= t.id {
		t.vc = append(t.vc, 0)
	}
	t.vc[t.id] = 1
	parent.tick()
	s.threads = append(s.threads, t)
	h := &Handle{t: t}
	t.what = "start"
	go func() {
		<-t.wake
		defer func() {
			t.done = true
			s.yield <- t
		}()
		f()
	}()
	return h
}

// Handle lets a thread wait for another one.
type Handle struct {
	t        *thread
	realDone chan struct{}
}

// Join blocks until the thread has finished (a happens-before edge).
func (h *Handle) Join() {
	if h.t == nil {
		<-h.realDone
		return
	}
	point(fmt.Sprintf("join %d", h.t.id), func() bool { return h.t.done })
	s.cur.acquire(h.t.vc)
}

func (t *thread) tick() {
	for len(t.vc) <= t.id {
		t.vc = append(t.vc, 0)
	}
	t.vc[t.id]++
}

func (t *thread) acquire(vc []int) {
	for len(t.vc) < len(vc) {
		t.vc = append(t.vc, 0)
	}
	for i, c := range vc {
		if c > t.vc[i] {
			t.vc[i] = c
		}
	}
}

func (t *thread) release(dst *[]int) {
	*dst = append((*dst)[:0], t.vc...)
	t.tick()
}

func joinVC(dst *[]int, vc []int) {
	for len(*dst) < len(vc) {
		*dst = append(*dst, 0)
	}
	for i, c := range vc {
		if c > (*dst)[i] {
			(*dst)[i] = c
		}
	}
}

// Run executes body under the scheduler, replaying prefix (choice indices) and taking choice 0
// ("keep running the same thread if it can") afterwards.
func Run(prefix []int, maxSteps int, body func()) *Exec {
	ex := &Exec{Races: map[Race]int{}}
	sc := &sched{yield: make(chan *thread), prefix: prefix, exec: ex, shadow: map[uintptr]*shadowCell{}, mapShadow: map[uintptr]*shadowCell{}, maxSteps: maxSteps}
	epochCounter++
	sc.epoch = epochCounter
	root := &thread{id: 0, wake: make(chan struct{}), vc: []int{1}, what: "start"}
	sc.threads = []*thread{root}
	s = sc
	go func() {
		<-root.wake
		defer func() {
			root.done = true
			sc.yield <- root
		}()
		body()
	}()
	running := -1
	var last *thread
	for {
		// enabled set
		var en []*thread
		alive := 0
		for _, t := range sc.threads {
			if t.done {
				continue
			}
			alive++
			if t.enabled == nil || t.enabled() {
				en = append(en, t)
			}
		}
		if alive == 0 {
			break
		}
		if len(en) == 0 {
			var w []string
			for _, t := range sc.threads {
				if !t.done {
					w = append(w, fmt.Sprintf("thread %d blocked at %s", t.id, t.what))
				}
			}
			ex.Deadlock = strings.Join(w, "; ")
			break
		}
		sort.Slice(en, func(i, j int) bool { return en[i].id < en[j].id })
		still := false
		if last != nil && !last.done {
			for i, t := range en {
				if t == last {
					still = true
					copy(en[1:i+1], en[:i])
					en[0] = last
					break
				}
			}
		}
		choice := 0
		k := len(ex.Points)
		if k < len(prefix) {
			choice = prefix[k]
			if choice >= len(en) {
				ex.Diverged = fmt.Sprintf("point %d: replayed choice %d but only %d threads are enabled", k, choice, len(en))
				break
			}
		}
		ids := make([]int, len(en))
		for i, t := range en {
			ids[i] = t.id
		}
		ex.Points = append(ex.Points, Point{Enabled: ids, Chosen: choice, Running: running, StillEn: still, What: en[choice].what})
		ex.Steps++
		if maxSteps > 0 && ex.Steps > maxSteps {
			ex.Deadlock = fmt.Sprintf("livelock: more than %d scheduling points", maxSteps)
			break
		}
		t := en[choice]
		sc.cur = t
		running = t.id
		t.wake <- struct{}{}
		last = <-sc.yield
	}
	s = nil
	// threads still parked (deadlock/divergence) stay blocked forever; the worker process is short-lived
	runtime.Gosched()
	return ex
}

var epochCounter int

// ---------------------------------------------------------------- happens-before detector

type access struct {
	tid   int
	clock int
	site  string
}

type shadowCell struct {
	w     access
	hasW  bool
	reads []access
}

func (t *thread) ordered(a access) bool {
	return a.tid == t.id || (a.tid < len(t.vc) && a.clock <= t.vc[a.tid])
}

func report(kindA string, a access, kindB string, siteB string) {
	x, y := kindA+" "+a.site, kindB+" "+siteB
	if y < x {
		x, y = y, x
	}
	s.exec.Races[Race{x, y}]++
}

func onRead(cells map[uintptr]*shadowCell, addr uintptr, site string) {
	t := s.cur
	c := cells[addr]
	if c == nil {
		c = &shadowCell{}
		cells[addr] = c
	}
	if c.hasW && !t.ordered(c.w) {
		report("W", c.w, "R", site)
	}
	for i := range c.reads {
		if c.reads[i].tid == t.id {
			c.reads[i] = access{t.id, t.vc[t.id], site}
			return
		}
	}
	c.reads = append(c.reads, access{t.id, t.vc[t.id], site})
}

func onWrite(cells map[uintptr]*shadowCell, addr uintptr, site string) {
	t := s.cur
	c := cells[addr]
	if c == nil {
		c = &shadowCell{}
		cells[addr] = c
	}
	if c.hasW && !t.ordered(c.w) {
		report("W", c.w, "W", site)
	}
	for _, r := range c.reads {
		if !t.ordered(r) {
			report("R", r, "W", site)
		}
	}
	c.w = access{t.id, t.vc[t.id], site}
	c.hasW = true
	c.reads = c.reads[:0]
}

// sink makes every instrumented object escape to the heap: goroutine stacks are recycled even while
// the GC is off, and a recycled stack address would look like a shared location to the detector.
var (
	sink    unsafe.Pointer
	sinkAny any
)

// R reports a plain read of *p at site and returns p (rule r4 wraps every field/element read).
func R[T any](p *T, site string) *T {
	if s != nil {
		sink = unsafe.Pointer(p)
		onRead(s.shadow, uintptr(unsafe.Pointer(p)), site)
	}
	return p
}

// W reports a plain write of *p at site and returns p.
func W[T any](p *T, site string) *T {
	if s != nil {
		sink = unsafe.Pointer(p)
		onWrite(s.shadow, uintptr(unsafe.Pointer(p)), site)
	}
	return p
}

// RM / WM report a read / write of a map (keyed by the map's identity) and return it.
func RM[M any](m M, site string) M {
	if s != nil {
		sinkAny = m
		if id := mapID(m); id != 0 {
			onRead(s.mapShadow, id, site)
		}
	}
	return m
}

func WM[M any](m M, site string) M {
	if s != nil {
		sinkAny = m
		if id := mapID(m); id != 0 {
			onWrite(s.mapShadow, id, site)
		}
	}
	return m
}

func mapID(m any) uintptr {
	// a map value is a pointer to its header: the second word of the interface is that pointer
	type eface struct {
		typ, data unsafe.Pointer
	}
	return uintptr((*eface)(unsafe.Pointer(&m)).data)
}
