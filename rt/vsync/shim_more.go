package vsync

// The rest of package sync's surface, so that a change to rapid that starts using it still builds under rule r3
// (a check that cannot build reports nothing). Same conventions as shim.go: outside an execution the real
// primitive is used; inside, every operation is a scheduling point with the happens-before edges of the real one.

import (
	"fmt"
	"sync"
)

func (m *RWMutex) TryRLock() bool {
	if s == nil {
		return m.real.TryRLock()
	}
	m.touch()
	point(fmt.Sprintf("TryRLock %p", m), nil)
	if m.writer || m.writerWaiting(s.cur) {
		return false
	}
	m.readers++
	s.cur.acquire(m.vcW)
	return true
}

type rlocker RWMutex

func (r *rlocker) Lock()   { (*RWMutex)(r).RLock() }
func (r *rlocker) Unlock() { (*RWMutex)(r).RUnlock() }

func (m *RWMutex) RLocker() Locker { return (*rlocker)(m) }

// ---------------------------------------------------------------- Map, the newer methods

func (m *Map) LoadAndDelete(key any) (any, bool) {
	if s == nil {
		return m.real.LoadAndDelete(key)
	}
	m.touch()
	point(fmt.Sprintf("Map.LoadAndDelete %p", m), nil)
	e, ok := m.m[key]
	if !ok {
		return nil, false
	}
	s.cur.acquire(e.vc)
	delete(m.m, key)
	return e.val, true
}

func (m *Map) Swap(key, value any) (any, bool) {
	if s == nil {
		return m.real.Swap(key, value)
	}
	m.touch()
	point(fmt.Sprintf("Map.Swap %p", m), nil)
	old, ok := m.m[key]
	e := &mapEntry{val: value}
	if ok {
		s.cur.acquire(old.vc)
	}
	s.cur.release(&e.vc)
	m.m[key] = e
	if ok {
		return old.val, true
	}
	return nil, false
}

func (m *Map) CompareAndSwap(key, old, new any) bool {
	if s == nil {
		return m.real.CompareAndSwap(key, old, new)
	}
	m.touch()
	point(fmt.Sprintf("Map.CompareAndSwap %p", m), nil)
	e, ok := m.m[key]
	if !ok {
		return false
	}
	s.cur.acquire(e.vc)
	if e.val != old {
		return false
	}
	n := &mapEntry{val: new}
	s.cur.release(&n.vc)
	m.m[key] = n
	return true
}

func (m *Map) CompareAndDelete(key, old any) bool {
	if s == nil {
		return m.real.CompareAndDelete(key, old)
	}
	m.touch()
	point(fmt.Sprintf("Map.CompareAndDelete %p", m), nil)
	e, ok := m.m[key]
	if !ok {
		return false
	}
	s.cur.acquire(e.vc)
	if e.val != old {
		return false
	}
	delete(m.m, key)
	return true
}

func (m *Map) Clear() {
	if s == nil {
		m.real.Range(func(k, _ any) bool { m.real.Delete(k); return true })
		return
	}
	m.touch()
	point(fmt.Sprintf("Map.Clear %p", m), nil)
	m.m = map[any]*mapEntry{}
}

// ---------------------------------------------------------------- Pool

// Pool: inside an execution one LIFO free list shared by all threads, so an object put back by one thread is the
// next one any thread gets - the interleavings in which a pooled object changes hands are exactly the ones to look at.
// Put synchronizes with the Get that returns the object, as in package sync.
type Pool struct {
	New   func() any
	real  sync.Pool
	epoch int
	free  []poolItem
}

type poolItem struct {
	v  any
	vc []int
}

func (p *Pool) Get() any {
	if s == nil {
		if v := p.real.Get(); v != nil {
			return v
		}
		if p.New != nil {
			return p.New()
		}
		return nil
	}
	if p.epoch != s.epoch {
		p.epoch, p.free = s.epoch, nil
	}
	point(fmt.Sprintf("Pool.Get %p", p), nil)
	if n := len(p.free); n > 0 {
		it := p.free[n-1]
		p.free = p.free[:n-1]
		s.cur.acquire(it.vc)
		return it.v
	}
	if p.New != nil {
		return p.New()
	}
	return nil
}

func (p *Pool) Put(v any) {
	if v == nil {
		return
	}
	if s == nil {
		p.real.Put(v)
		return
	}
	if p.epoch != s.epoch {
		p.epoch, p.free = s.epoch, nil
	}
	point(fmt.Sprintf("Pool.Put %p", p), nil)
	it := poolItem{v: v}
	s.cur.release(&it.vc)
	p.free = append(p.free, it)
}

// ---------------------------------------------------------------- OnceFunc / OnceValue / OnceValues

func OnceFunc(f func()) func() {
	var o Once
	var p any
	ok := false
	return func() {
		o.Do(func() {
			defer func() {
				if !ok {
					p = recover()
					panic(p)
				}
			}()
			f()
			ok = true
		})
		if !ok {
			panic(p)
		}
	}
}

func OnceValue[T any](f func() T) func() T {
	var v T
	g := OnceFunc(func() { v = f() })
	return func() T { g(); return v }
}

func OnceValues[T1, T2 any](f func() (T1, T2)) func() (T1, T2) {
	var v1 T1
	var v2 T2
	g := OnceFunc(func() { v1, v2 = f() })
	return func() (T1, T2) { g(); return v1, v2 }
}

// ---------------------------------------------------------------- Cond (a waiter is enabled once a Signal/Broadcast after its Wait has happened)

type Cond struct {
	L     Locker
	epoch int
	gen   int // incremented by Broadcast
	sig   int // pending Signals
	vc    []int
}

func NewCond(l Locker) *Cond { return &Cond{L: l} }

func (c *Cond) touch() {
	if c.epoch != s.epoch {
		c.epoch, c.gen, c.sig, c.vc = s.epoch, 0, 0, nil
	}
}

func (c *Cond) Wait() {
	if s == nil {
		panic("vsync.Cond outside an execution is not supported")
	}
	c.touch()
	gen := c.gen
	c.L.Unlock()
	point(fmt.Sprintf("Cond.Wait %p", c), func() bool { c.touch(); return c.gen != gen || c.sig > 0 })
	if c.gen == gen {
		c.sig--
	}
	s.cur.acquire(c.vc)
	c.L.Lock()
}

func (c *Cond) Signal() {
	if s == nil {
		return
	}
	c.touch()
	point(fmt.Sprintf("Cond.Signal %p", c), nil)
	c.sig++
	s.cur.release(&c.vc)
}

func (c *Cond) Broadcast() {
	if s == nil {
		return
	}
	c.touch()
	point(fmt.Sprintf("Cond.Broadcast %p", c), nil)
	c.gen++
	c.sig = 0
	s.cur.release(&c.vc)
}

// RMW is an atomic read-modify-write on the cell: one scheduling point, acquire and release.
func (c *AtomicCell) RMW(id any, init any, f func(old any) any) (old, new any) {
	c.touch(init)
	point(fmt.Sprintf("atomic.RMW %p", id), nil)
	s.cur.acquire(c.vc)
	old = c.val
	c.val = f(old)
	s.cur.release(&c.vc)
	return old, c.val
}
