// Package vatomic is substituted for sync/atomic in the instrumented copy of rapid (rule r3).
package vatomic

import (
	"sync/atomic"

	"pgregory.net/rapid/verifrt/vsync"
)

// Bool mirrors atomic.Bool; under the scheduler every operation is a scheduling point and a
// store synchronizes with the loads that observe it.
type Bool struct {
	real atomic.Bool
	cell vsync.AtomicCell
}

func (b *Bool) Load() bool {
	if !vsync.Active() {
		return b.real.Load()
	}
	v, _ := b.cell.Load(b, b.real.Load()).(bool)
	return v
}

func (b *Bool) Store(v bool) {
	if !vsync.Active() {
		b.real.Store(v)
		return
	}
	b.cell.Store(b, b.real.Load(), v)
}

func (b *Bool) CompareAndSwap(old, new bool) bool {
	if !vsync.Active() {
		return b.real.CompareAndSwap(old, new)
	}
	return b.cell.CAS(b, b.real.Load(), old, new)
}

func (b *Bool) Swap(new bool) bool {
	if !vsync.Active() {
		return b.real.Swap(new)
	}
	old, _ := b.cell.Load(b, b.real.Load()).(bool)
	b.cell.Store(b, b.real.Load(), new)
	return old
}
