package vatomic

// The rest of sync/atomic's surface (see vsync/shim_more.go for why).

import (
	"sync"
	"sync/atomic"
	"unsafe"

	"pgregory.net/rapid/verifrt/vsync"
)

type number interface {
	~int32 | ~int64 | ~uint32 | ~uint64 | ~uintptr
}

// num is the common implementation of the integer types. Inside an execution the value lives in the cell
// (initialised from the real variable at first touch), outside in the real variable.
type num[T number] struct {
	mu   sync.Mutex // guards real outside executions (real goroutines)
	real T
	cell vsync.AtomicCell
}

func (n *num[T]) load() T {
	if !vsync.Active() {
		n.mu.Lock()
		defer n.mu.Unlock()
		return n.real
	}
	v, _ := n.cell.Load(n, n.real).(T)
	return v
}
func (n *num[T]) store(v T) {
	if !vsync.Active() {
		n.mu.Lock()
		n.real = v
		n.mu.Unlock()
		return
	}
	n.cell.Store(n, n.real, v)
}
func (n *num[T]) add(d T) T {
	if !vsync.Active() {
		n.mu.Lock()
		defer n.mu.Unlock()
		n.real += d
		return n.real
	}
	_, nv := n.cell.RMW(n, n.real, func(old any) any { return old.(T) + d })
	return nv.(T)
}
func (n *num[T]) swap(v T) T {
	if !vsync.Active() {
		n.mu.Lock()
		defer n.mu.Unlock()
		old := n.real
		n.real = v
		return old
	}
	old, _ := n.cell.RMW(n, n.real, func(any) any { return v })
	return old.(T)
}
func (n *num[T]) cas(old, new T) bool {
	if !vsync.Active() {
		n.mu.Lock()
		defer n.mu.Unlock()
		if n.real == old {
			n.real = new
			return true
		}
		return false
	}
	return n.cell.CAS(n, n.real, old, new)
}

type Int32 struct{ n num[int32] }

func (x *Int32) Load() int32                    { return x.n.load() }
func (x *Int32) Store(v int32)                  { x.n.store(v) }
func (x *Int32) Add(d int32) int32              { return x.n.add(d) }
func (x *Int32) Swap(v int32) int32             { return x.n.swap(v) }
func (x *Int32) CompareAndSwap(o, n int32) bool { return x.n.cas(o, n) }
func (x *Int32) And(m int32) int32              { return x.andor(func(v int32) int32 { return v & m }) }
func (x *Int32) Or(m int32) int32               { return x.andor(func(v int32) int32 { return v | m }) }
func (x *Int32) andor(f func(int32) int32) int32 {
	for {
		o := x.n.load()
		if x.n.cas(o, f(o)) {
			return o
		}
	}
}

type Int64 struct{ n num[int64] }

func (x *Int64) Load() int64                    { return x.n.load() }
func (x *Int64) Store(v int64)                  { x.n.store(v) }
func (x *Int64) Add(d int64) int64              { return x.n.add(d) }
func (x *Int64) Swap(v int64) int64             { return x.n.swap(v) }
func (x *Int64) CompareAndSwap(o, n int64) bool { return x.n.cas(o, n) }

type Uint32 struct{ n num[uint32] }

func (x *Uint32) Load() uint32                    { return x.n.load() }
func (x *Uint32) Store(v uint32)                  { x.n.store(v) }
func (x *Uint32) Add(d uint32) uint32             { return x.n.add(d) }
func (x *Uint32) Swap(v uint32) uint32            { return x.n.swap(v) }
func (x *Uint32) CompareAndSwap(o, n uint32) bool { return x.n.cas(o, n) }

type Uint64 struct{ n num[uint64] }

func (x *Uint64) Load() uint64                    { return x.n.load() }
func (x *Uint64) Store(v uint64)                  { x.n.store(v) }
func (x *Uint64) Add(d uint64) uint64             { return x.n.add(d) }
func (x *Uint64) Swap(v uint64) uint64            { return x.n.swap(v) }
func (x *Uint64) CompareAndSwap(o, n uint64) bool { return x.n.cas(o, n) }

type Uintptr struct{ n num[uintptr] }

func (x *Uintptr) Load() uintptr                    { return x.n.load() }
func (x *Uintptr) Store(v uintptr)                  { x.n.store(v) }
func (x *Uintptr) Add(d uintptr) uintptr            { return x.n.add(d) }
func (x *Uintptr) Swap(v uintptr) uintptr           { return x.n.swap(v) }
func (x *Uintptr) CompareAndSwap(o, n uintptr) bool { return x.n.cas(o, n) }

// Pointer mirrors atomic.Pointer[T].
type Pointer[T any] struct {
	real atomic.Pointer[T]
	cell vsync.AtomicCell
}

func (p *Pointer[T]) Load() *T {
	if !vsync.Active() {
		return p.real.Load()
	}
	v, _ := p.cell.Load(p, p.real.Load()).(*T)
	return v
}
func (p *Pointer[T]) Store(v *T) {
	if !vsync.Active() {
		p.real.Store(v)
		return
	}
	p.cell.Store(p, p.real.Load(), v)
}
func (p *Pointer[T]) Swap(v *T) *T {
	if !vsync.Active() {
		return p.real.Swap(v)
	}
	old, _ := p.cell.RMW(p, p.real.Load(), func(any) any { return v })
	o, _ := old.(*T)
	return o
}
func (p *Pointer[T]) CompareAndSwap(old, new *T) bool {
	if !vsync.Active() {
		return p.real.CompareAndSwap(old, new)
	}
	return p.cell.CAS(p, p.real.Load(), old, new)
}

// Value mirrors atomic.Value (without its type-consistency panics).
type Value struct {
	mu   sync.Mutex
	real any
	cell vsync.AtomicCell
}

func (v *Value) Load() any {
	if !vsync.Active() {
		v.mu.Lock()
		defer v.mu.Unlock()
		return v.real
	}
	return v.cell.Load(v, v.real)
}
func (v *Value) Store(x any) {
	if !vsync.Active() {
		v.mu.Lock()
		v.real = x
		v.mu.Unlock()
		return
	}
	v.cell.Store(v, v.real, x)
}
func (v *Value) Swap(x any) any {
	if !vsync.Active() {
		v.mu.Lock()
		defer v.mu.Unlock()
		old := v.real
		v.real = x
		return old
	}
	old, _ := v.cell.RMW(v, v.real, func(any) any { return x })
	return old
}
func (v *Value) CompareAndSwap(old, new any) bool {
	if !vsync.Active() {
		v.mu.Lock()
		defer v.mu.Unlock()
		if v.real == old {
			v.real = new
			return true
		}
		return false
	}
	return v.cell.CAS(v, v.real, old, new)
}

// ---------------------------------------------------------------- function style: atomic.AddInt32(&x, 1) ...
// The variable is an ordinary one; inside an execution its atomic view lives in a cell found by address
// (initialised from the variable at first touch in the execution), outside the real functions are used.

var cells = map[unsafe.Pointer]*vsync.AtomicCell{}

func cellOf(p unsafe.Pointer) *vsync.AtomicCell {
	c := cells[p]
	if c == nil {
		c = &vsync.AtomicCell{}
		cells[p] = c
	}
	return c
}

func fload[T number](p *T) T {
	v, _ := cellOf(unsafe.Pointer(p)).Load(p, *p).(T)
	return v
}
func fstore[T number](p *T, v T) { cellOf(unsafe.Pointer(p)).Store(p, *p, v) }
func fadd[T number](p *T, d T) T {
	_, nv := cellOf(unsafe.Pointer(p)).RMW(p, *p, func(old any) any { return old.(T) + d })
	return nv.(T)
}
func fswap[T number](p *T, v T) T {
	old, _ := cellOf(unsafe.Pointer(p)).RMW(p, *p, func(any) any { return v })
	return old.(T)
}
func fcas[T number](p *T, o, n T) bool { return cellOf(unsafe.Pointer(p)).CAS(p, *p, o, n) }

func LoadInt32(p *int32) int32 {
	if !vsync.Active() {
		return atomic.LoadInt32(p)
	}
	return fload(p)
}
func LoadInt64(p *int64) int64 {
	if !vsync.Active() {
		return atomic.LoadInt64(p)
	}
	return fload(p)
}
func LoadUint32(p *uint32) uint32 {
	if !vsync.Active() {
		return atomic.LoadUint32(p)
	}
	return fload(p)
}
func LoadUint64(p *uint64) uint64 {
	if !vsync.Active() {
		return atomic.LoadUint64(p)
	}
	return fload(p)
}
func LoadUintptr(p *uintptr) uintptr {
	if !vsync.Active() {
		return atomic.LoadUintptr(p)
	}
	return fload(p)
}
func StoreInt32(p *int32, v int32) {
	if !vsync.Active() {
		atomic.StoreInt32(p, v)
		return
	}
	fstore(p, v)
}
func StoreInt64(p *int64, v int64) {
	if !vsync.Active() {
		atomic.StoreInt64(p, v)
		return
	}
	fstore(p, v)
}
func StoreUint32(p *uint32, v uint32) {
	if !vsync.Active() {
		atomic.StoreUint32(p, v)
		return
	}
	fstore(p, v)
}
func StoreUint64(p *uint64, v uint64) {
	if !vsync.Active() {
		atomic.StoreUint64(p, v)
		return
	}
	fstore(p, v)
}
func StoreUintptr(p *uintptr, v uintptr) {
	if !vsync.Active() {
		atomic.StoreUintptr(p, v)
		return
	}
	fstore(p, v)
}
func AddInt32(p *int32, d int32) int32 {
	if !vsync.Active() {
		return atomic.AddInt32(p, d)
	}
	return fadd(p, d)
}
func AddInt64(p *int64, d int64) int64 {
	if !vsync.Active() {
		return atomic.AddInt64(p, d)
	}
	return fadd(p, d)
}
func AddUint32(p *uint32, d uint32) uint32 {
	if !vsync.Active() {
		return atomic.AddUint32(p, d)
	}
	return fadd(p, d)
}
func AddUint64(p *uint64, d uint64) uint64 {
	if !vsync.Active() {
		return atomic.AddUint64(p, d)
	}
	return fadd(p, d)
}
func AddUintptr(p *uintptr, d uintptr) uintptr {
	if !vsync.Active() {
		return atomic.AddUintptr(p, d)
	}
	return fadd(p, d)
}
func SwapInt32(p *int32, v int32) int32 {
	if !vsync.Active() {
		return atomic.SwapInt32(p, v)
	}
	return fswap(p, v)
}
func SwapInt64(p *int64, v int64) int64 {
	if !vsync.Active() {
		return atomic.SwapInt64(p, v)
	}
	return fswap(p, v)
}
func SwapUint32(p *uint32, v uint32) uint32 {
	if !vsync.Active() {
		return atomic.SwapUint32(p, v)
	}
	return fswap(p, v)
}
func SwapUint64(p *uint64, v uint64) uint64 {
	if !vsync.Active() {
		return atomic.SwapUint64(p, v)
	}
	return fswap(p, v)
}
func CompareAndSwapInt32(p *int32, o, n int32) bool {
	if !vsync.Active() {
		return atomic.CompareAndSwapInt32(p, o, n)
	}
	return fcas(p, o, n)
}
func CompareAndSwapInt64(p *int64, o, n int64) bool {
	if !vsync.Active() {
		return atomic.CompareAndSwapInt64(p, o, n)
	}
	return fcas(p, o, n)
}
func CompareAndSwapUint32(p *uint32, o, n uint32) bool {
	if !vsync.Active() {
		return atomic.CompareAndSwapUint32(p, o, n)
	}
	return fcas(p, o, n)
}
func CompareAndSwapUint64(p *uint64, o, n uint64) bool {
	if !vsync.Active() {
		return atomic.CompareAndSwapUint64(p, o, n)
	}
	return fcas(p, o, n)
}
