// Package vfs is the file-system seam substituted for package os in persist.go
// (rule r6). By default every call passes straight through to package os.
package vfs

import "os"

// Hooks, when non-nil, see every operation before it happens and can fail it.
type Hooks interface {
	// Op is called before each operation; a non-nil error is returned to the caller instead of performing it.
	// For "write" ops, keep is the number of bytes to persist before failing (-1 = all, no failure).
	Op(kind string, path string, n int) (err error, keep int)
}

var H Hooks

type File struct {
	f *os.File
}

func op(kind, path string, n int) (error, int) {
	if H == nil {
		return nil, -1
	}
	return H.Op(kind, path, n)
}

func MkdirAll(path string, perm os.FileMode) error {
	if err, _ := op("mkdirall", path, 0); err != nil {
		return err
	}
	return os.MkdirAll(path, perm)
}

func CreateTemp(dir, pattern string) (*File, error) {
	if err, _ := op("createtemp", dir+"/"+pattern, 0); err != nil {
		return nil, err
	}
	f, err := os.CreateTemp(dir, pattern)
	if err != nil {
		return nil, err
	}
	return &File{f}, nil
}

func Open(name string) (*File, error) {
	if err, _ := op("open", name, 0); err != nil {
		return nil, err
	}
	f, err := os.Open(name)
	if err != nil {
		return nil, err
	}
	return &File{f}, nil
}

func Rename(oldpath, newpath string) error {
	if err, _ := op("rename", oldpath+" -> "+newpath, 0); err != nil {
		return err
	}
	return os.Rename(oldpath, newpath)
}

func Remove(name string) error {
	if err, _ := op("remove", name, 0); err != nil {
		return err
	}
	return os.Remove(name)
}

func (f *File) Name() string { return f.f.Name() }

func (f *File) WriteString(s string) (int, error) {
	err, keep := op("write", f.f.Name(), len(s))
	if err != nil {
		if keep > len(s) {
			keep = len(s)
		}
		if keep > 0 {
			f.f.WriteString(s[:keep])
		}
		if keep < 0 {
			keep = 0
		}
		return keep, err
	}
	return f.f.WriteString(s)
}

func (f *File) Write(b []byte) (int, error) {
	err, keep := op("write", f.f.Name(), len(b))
	if err != nil {
		if keep > len(b) {
			keep = len(b)
		}
		if keep > 0 {
			f.f.Write(b[:keep])
		}
		if keep < 0 {
			keep = 0
		}
		return keep, err
	}
	return f.f.Write(b)
}

func (f *File) Read(b []byte) (int, error) {
	if err, _ := op("read", f.f.Name(), len(b)); err != nil {
		return 0, err
	}
	return f.f.Read(b)
}

func (f *File) Close() error {
	if err, _ := op("close", f.f.Name(), 0); err != nil {
		f.f.Close()
		return err
	}
	return f.f.Close()
}

func Create(name string) (*File, error) {
	if err, _ := op("create", name, 0); err != nil {
		return nil, err
	}
	f, err := os.Create(name)
	if err != nil {
		return nil, err
	}
	return &File{f}, nil
}

func OpenFile(name string, flag int, perm os.FileMode) (*File, error) {
	if err, _ := op("openfile", name, 0); err != nil {
		return nil, err
	}
	f, err := os.OpenFile(name, flag, perm)
	if err != nil {
		return nil, err
	}
	return &File{f}, nil
}

// WriteFile is create + one write + close, each a crash point.
func WriteFile(name string, data []byte, perm os.FileMode) error {
	f, err := OpenFile(name, os.O_WRONLY|os.O_CREATE|os.O_TRUNC, perm)
	if err != nil {
		return err
	}
	_, err = f.Write(data)
	if err1 := f.Close(); err1 != nil && err == nil {
		err = err1
	}
	return err
}

func Mkdir(name string, perm os.FileMode) error {
	if err, _ := op("mkdir", name, 0); err != nil {
		return err
	}
	return os.Mkdir(name, perm)
}

func RemoveAll(path string) error {
	if err, _ := op("removeall", path, 0); err != nil {
		return err
	}
	return os.RemoveAll(path)
}

func Link(oldname, newname string) error {
	if err, _ := op("link", oldname+" -> "+newname, 0); err != nil {
		return err
	}
	return os.Link(oldname, newname)
}

func Symlink(oldname, newname string) error {
	if err, _ := op("symlink", oldname+" -> "+newname, 0); err != nil {
		return err
	}
	return os.Symlink(oldname, newname)
}

func (f *File) Sync() error {
	if err, _ := op("sync", f.f.Name(), 0); err != nil {
		return err
	}
	return f.f.Sync()
}

func (f *File) Truncate(size int64) error {
	if err, _ := op("truncate", f.f.Name(), 0); err != nil {
		return err
	}
	return f.f.Truncate(size)
}

func (f *File) Stat() (os.FileInfo, error) { return f.f.Stat() }
func (f *File) Fd() uintptr                { return f.f.Fd() }
